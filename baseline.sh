#!/bin/sh
# Runs the repository's own test-suite (all Go modules) on a scratch copy of
# /repo's working tree, with no build tag (there are no guarded hooks: the
# machinery needs none). Usage: baseline.sh [-json]
set -u
export GOFLAGS=-mod=mod GOPROXY=off GOSUMDB=off GOTOOLCHAIN=local
S=$(mktemp -d /tmp/verif-baseline-XXXXXX)
trap 'rm -rf "$S"' EXIT INT TERM
mkdir -p "$S/repo"
(cd /repo && git ls-files -co --exclude-standard -z | xargs -0 -I{} sh -c 'test -f "$1" && mkdir -p "$2/$(dirname "$1")" && cp -p "$1" "$2/$1"' sh {} "$S/repo")
rc=0
JSON=""
[ "${1:-}" = "-json" ] && JSON="-json"
# modules that contain tests (samples/ holds 21 separate main programs in one
# directory and is not a testable package; the pinned baseline has no test there)
for d in $(cd "$S/repo" && find . -name '*_test.go' -exec dirname {} \; | sort -u); do
  (cd "$S/repo/$d" && go test $JSON -vet=off -count=1 -timeout 25m ./...) || rc=1
done
exit $rc
