#!/bin/sh
# ./check.sh <property-id> quick|thorough      run one property check
# ./check.sh replay <path>                     re-run one saved failing case
# Rebuilds the orchestrator (cached, < 1 s) and delegates to it.
set -u
ROOT=$(cd "$(dirname "$0")" && pwd)
export VERIF_DIR="$ROOT"
cd "$ROOT/harness" || exit 2
export GOFLAGS=-mod=mod GOPROXY=off GOSUMDB=off GOTOOLCHAIN=local GOWORK=off
mkdir -p "$ROOT/bin"
go build -o "$ROOT/bin/vcheck" ./cmd/vcheck || { echo "INCONCLUSIVE: cannot build vcheck" >&2; exit 2; }
cd "$ROOT"
if [ "${1:-}" = "replay" ]; then
  exec "$ROOT/bin/vcheck" replay "$2"
fi
exec "$ROOT/bin/vcheck" run "$1" --tier "${2:-${VERIF_TIER:-quick}}"
