// vcheck is the orchestrator: for one property it snapshots /repo's working
// tree, rebuilds the tools the property needs from that snapshot, compiles the
// property's test package, runs it in shards (rapid seeds derived from
// VERIF_SEED), merges the per-case logs into /verif/evidence/<id>.json, copies
// minimised failing cases to /verif/replay/<id>/<sha>/ and prints
// `VIOLATION property=<id> replay=<path>` lines.
//
// exit 0 = held on everything explored, 1 = violation, 2 = inconclusive
// (infrastructure: build failure of the harness, timeout, dead worker).
package main

import (
	"bufio"
	"encoding/json"
	"flag"
	"fmt"
	"os"
	"os/signal"
	"path/filepath"
	"regexp"
	"sort"
	"strconv"
	"strings"
	"sync"
	"syscall"
	"time"

	"verif/harness/pipeline"
	"verif/harness/vt"
)

// verifDir is the root of the verification tree: $VERIF_DIR when set (check.sh
// sets it to its own directory, so a snapshot of /verif works in place), else /verif.
var verifDir = func() string {
	if d := os.Getenv("VERIF_DIR"); d != "" {
		return d
	}
	return "/verif"
}()

// repoDir is the tree under verification: /repo, or $VERIF_REPO_DIR (used only for background
// sweeps that must not see edits made to /repo while they run).
var repoDir = func() string {
	if d := os.Getenv("VERIF_REPO_DIR"); d != "" {
		return d
	}
	return "/repo"
}()

func usage() {
	fmt.Fprintln(os.Stderr, "usage: vcheck run <id> [--tier quick|thorough]\n       vcheck replay <path-to-case.json-or-dir>\n       vcheck list")
	os.Exit(2)
}

func main() {
	if len(os.Args) < 2 {
		usage()
	}
	switch os.Args[1] {
	case "run":
		fs := flag.NewFlagSet("run", flag.ExitOnError)
		tier := fs.String("tier", "", "quick|thorough")
		keep := fs.Bool("keep", false, "keep scratch directory")
		only := fs.String("only", "", "regexp of test names to run (development)")
		if len(os.Args) < 3 {
			usage()
		}
		id := os.Args[2]
		fs.Parse(os.Args[3:])
		t := *tier
		if t == "" {
			t = os.Getenv("VERIF_TIER")
		}
		if t == "" {
			t = "quick"
		}
		os.Exit(runProperty(id, t, *keep, *only, ""))
	case "replay":
		if len(os.Args) < 3 {
			usage()
		}
		os.Exit(replay(os.Args[2]))
	case "manifest":
		os.Exit(writeManifest())
	case "list":
		for _, p := range props {
			fmt.Println(p.ID, p.Pkg)
		}
	default:
		usage()
	}
}

func replay(path string) int {
	p := path
	if a, err := filepath.Abs(p); err == nil {
		p = a // the test binary runs in its own directory
	}
	if st, err := os.Stat(p); err == nil && st.IsDir() {
		p = filepath.Join(p, "case.json")
	}
	b, err := os.ReadFile(p)
	if err != nil {
		fmt.Fprintln(os.Stderr, "replay:", err)
		return 2
	}
	var fc vt.FailCase
	if err := json.Unmarshal(b, &fc); err != nil || fc.Property == "" {
		fmt.Fprintln(os.Stderr, "replay: not a case file:", p)
		return 2
	}
	return runProperty(fc.Property, "quick", false, "", p)
}

type shardJob struct {
	test     testCfg
	testIdx  int
	shard    int
	nshards  int
	checks   int
	dir      string
	replay   string
	exit     int
	timedOut bool
	passed   int
	log      string
	dur      time.Duration
}

var rePassed = regexp.MustCompile(`OK, passed (\d+) tests`)

func runProperty(id, tier string, keep bool, only string, replayPath string) int {
	t0 := time.Now()
	cfg := findProp(id)
	if cfg == nil {
		fmt.Fprintf(os.Stderr, "unknown property %q\n", id)
		return 2
	}
	seed := 1
	if s := os.Getenv("VERIF_SEED"); s != "" {
		if n, err := strconv.Atoi(s); err == nil {
			seed = n
		}
	}
	scratch, err := os.MkdirTemp("", "verif-"+id+"-")
	if err != nil {
		fmt.Fprintln(os.Stderr, "scratch:", err)
		return 2
	}
	cleanup := func() {
		if !keep {
			// go's module cache style read-only dirs do not occur here; plain removal
			os.RemoveAll(scratch)
		} else {
			fmt.Fprintln(os.Stderr, "scratch kept:", scratch)
		}
	}
	defer cleanup()
	sig := make(chan os.Signal, 1)
	signal.Notify(sig, syscall.SIGINT, syscall.SIGTERM)
	go func() {
		<-sig
		syscall.Kill(0, syscall.SIGTERM) // children are in their own groups; best effort
		cleanup()
		os.Exit(2)
	}()

	inconclusive := func(format string, a ...any) int {
		fmt.Fprintf(os.Stderr, "INCONCLUSIVE property=%s: %s\n", id, fmt.Sprintf(format, a...))
		return 2
	}

	// 1. snapshot of the working tree
	snap := filepath.Join(scratch, "repo")
	if err := pipeline.Snapshot(repoDir, snap); err != nil {
		return inconclusive("snapshot: %v", err)
	}
	bin := filepath.Join(scratch, "bin")
	os.MkdirAll(bin, 0o755)

	// 2. tools, in parallel
	env := map[string]string{}
	type buildRes struct {
		what string
		r    pipeline.Result
	}
	var wg sync.WaitGroup
	resCh := make(chan buildRes, 8)
	build := func(what, rel, out string) {
		wg.Add(1)
		go func() {
			defer wg.Done()
			resCh <- buildRes{what, pipeline.BuildTool(snap, rel, out)}
		}()
	}
	for _, n := range cfg.Needs {
		switch n {
		case "fc":
			env["VERIF_FC"] = filepath.Join(bin, "fc")
			build("fc", "fc", env["VERIF_FC"])
		case "fcperm":
			// fc built against a dict package with controlled enumeration order (build-time overlay)
			ov, err := pipeline.DictShim(snap, scratch)
			if err != nil {
				fmt.Fprintf(os.Stderr, "note: dict order shim not available (%v); only natural map order is used\n", err)
				break
			}
			env["VERIF_FCPERM"] = filepath.Join(bin, "fcperm")
			wg.Add(1)
			go func() {
				defer wg.Done()
				resCh <- buildRes{"fc with the dict-order overlay", pipeline.BuildTool(snap, "fc", env["VERIF_FCPERM"], "-overlay", ov)}
			}()
		case "tinyfo":
			env["VERIF_TINYFO"] = filepath.Join(bin, "tinyfo")
			build("tinyfo", "tinyfo", env["VERIF_TINYFO"])
		case "bsm":
			env["VERIF_BSM"] = filepath.Join(bin, "build_sample_md")
			build("build_sample_md", "cmd/build_sample_md", env["VERIF_BSM"])
		}
	}
	// 3. the property's test binary
	// (the harness module's replace directives name /repo/pkg/...; the binary is built with a copy of
	// go.mod whose replacements point into the snapshot, so that the in-process library checks see exactly
	// the tree the tools were built from - also when VERIF_REPO_DIR names another tree)
	testBin := filepath.Join(bin, id+".test")
	modfile := filepath.Join(scratch, "harness.mod")
	{
		hm, err1 := os.ReadFile(filepath.Join(verifDir, "harness", "go.mod"))
		hs, err2 := os.ReadFile(filepath.Join(verifDir, "harness", "go.sum"))
		if err1 != nil || err2 != nil {
			return inconclusive("cannot read the harness module files: %v %v", err1, err2)
		}
		os.WriteFile(modfile, []byte(strings.ReplaceAll(string(hm), "=> /repo/pkg/", "=> "+snap+"/pkg/")), 0o644)
		os.WriteFile(filepath.Join(scratch, "harness.sum"), hs, 0o644)
	}
	wg.Add(1)
	go func() {
		defer wg.Done()
		r := pipeline.Run(pipeline.Opts{Dir: filepath.Join(verifDir, "harness"), Env: pipeline.GoEnv(), Timeout: 15 * time.Minute},
			"go", "test", "-c", "-modfile="+modfile, "-o", testBin, "./"+cfg.Pkg)
		resCh <- buildRes{"test binary " + cfg.Pkg, r}
	}()
	wg.Wait()
	close(resCh)
	for br := range resCh {
		if br.r.Exit != 0 {
			fmt.Fprintln(os.Stderr, br.r.String())
			return inconclusive("cannot build %s from the working tree", br.what)
		}
	}
	// second compiler variant: when the tree is not a fixed point of the self-hosted compiler
	// (fc/*.fo and fc/gen_*.go disagree), also check the compiler rebuilt from the regenerated files
	if _, ok := env["VERIF_FC"]; ok && os.Getenv("VERIF_NO_FCB") == "" {
		if fcb, note := buildFCB(scratch, snap, env["VERIF_FC"], bin); fcb != "" {
			env["VERIF_FCB"] = fcb
			fmt.Fprintln(os.Stderr, "note: fc/*.fo and fc/gen_*.go are not a fixed point; every fc-based check also runs the compiler rebuilt from the regenerated files")
		} else if note != "" {
			fmt.Fprintln(os.Stderr, "note:", note)
		}
	}
	gocache := ""
	for _, n := range cfg.Needs {
		if n == "gocache" {
			gocache = filepath.Join(scratch, "gocache")
			os.MkdirAll(gocache, 0o755)
			if r := warmCache(scratch, snap, gocache); r.Exit != 0 {
				fmt.Fprintln(os.Stderr, r.String())
				return inconclusive("cannot build the folang runtime packages from the working tree")
			}
			env["VERIF_GOCACHE"] = gocache
		}
	}

	// 4. jobs
	var jobs []*shardJob
	if replayPath != "" {
		jobs = append(jobs, &shardJob{test: testCfg{Name: "TestReplay"}, nshards: 1, replay: replayPath})
	} else {
		corpus := filepath.Join(verifDir, "corpus", id)
		if hasJSON(corpus) {
			jobs = append(jobs, &shardJob{test: testCfg{Name: "TestReplay"}, nshards: 1, replay: corpus})
		}
		var onlyRe *regexp.Regexp
		if only != "" {
			onlyRe = regexp.MustCompile(only)
		}
		for ti, tc := range cfg.Tests {
			if onlyRe != nil && !onlyRe.MatchString(tc.Name) {
				continue
			}
			n, shards := tc.Quick, tc.ShardsQ
			if tier == "thorough" {
				n, shards = tc.Thorough, tc.ShardsT
			}
			if shards <= 0 {
				shards = 1
			}
			if tc.Rapid && n <= 0 {
				continue
			}
			if tc.ThoroughOnly && tier != "thorough" {
				continue
			}
			for s := 0; s < shards; s++ {
				per := 0
				if n > 0 {
					per = (n + shards - 1) / shards
				}
				jobs = append(jobs, &shardJob{test: tc, testIdx: ti, shard: s, nshards: shards, checks: per})
			}
		}
	}
	shardTimeout := 20 * time.Minute
	if tier == "thorough" {
		shardTimeout = 120 * time.Minute
	}
	par := 16
	if v := os.Getenv("VERIF_PAR"); v != "" {
		if n, err := strconv.Atoi(v); err == nil && n > 0 {
			par = n
		}
	}
	sem := make(chan struct{}, par)
	var jw sync.WaitGroup
	for ji, j := range jobs {
		j.dir = filepath.Join(scratch, fmt.Sprintf("job%03d", ji))
		os.MkdirAll(j.dir, 0o755)
		jw.Add(1)
		go func(j *shardJob) {
			defer jw.Done()
			sem <- struct{}{}
			defer func() { <-sem }()
			runShard(j, id, tier, seed, testBin, snap, env, shardTimeout)
		}(j)
	}
	jw.Wait()

	// 5. collect
	ev := newEvidence(id, tier, seed, cfg)
	violations := map[string]string{}
	known := map[string]bool{}
	incon := []string{}
	for _, j := range jobs {
		ev.merge(filepath.Join(j.dir, "evlog.jsonl"))
		for _, line := range strings.Split(j.log, "\n") {
			if strings.HasPrefix(line, "KNOWN-FINDING:") {
				known[strings.TrimSpace(line)] = true
			}
		}
		casePath := filepath.Join(j.dir, "lastfail", "case.json")
		_, caseErr := os.Stat(casePath)
		switch {
		case j.exit == 0 && !j.timedOut:
			if j.test.Rapid && j.passed < j.checks {
				incon = append(incon, fmt.Sprintf("%s shard %d: passed %d of %d requested cases", j.test.Name, j.shard, j.passed, j.checks))
			}
		case caseErr == nil && !j.timedOut:
			b, _ := os.ReadFile(casePath)
			var fc vt.FailCase
			json.Unmarshal(b, &fc)
			sha := vt.Hash(string(fc.Case), fc.Kind)
			dst := filepath.Join(verifDir, "replay", id, sha)
			if replayPath != "" {
				// replaying an existing case: report the path that was given
				dst = filepath.Dir(replayPath)
			} else {
				os.MkdirAll(dst, 0o755)
				os.WriteFile(filepath.Join(dst, "case.json"), b, 0o644)
				os.WriteFile(filepath.Join(dst, "log.txt"), []byte(tail(j.log, 200)), 0o644)
				copyRapidFail(j.dir, dst)
			}
			if _, dup := violations[dst]; !dup {
				violations[dst] = fc.Msg
			}
		default:
			why := "test process failed without a saved case"
			if j.timedOut {
				why = "shard timed out"
			}
			incon = append(incon, fmt.Sprintf("%s shard %d: %s (exit %d)\n%s", j.test.Name, j.shard, why, j.exit, tail(j.log, 60)))
		}
	}
	var ks []string
	for k := range known {
		ks = append(ks, k)
	}
	sort.Strings(ks)
	for _, k := range ks {
		fmt.Println(k)
	}
	ev.Violations = len(violations)
	ev.WallS = time.Since(t0).Seconds()
	ev.KnownFindings = ks
	if replayPath == "" {
		if err := ev.write(filepath.Join(verifDir, "evidence", id+".json")); err != nil {
			incon = append(incon, "evidence: "+err.Error())
		}
	}
	var vk []string
	for k := range violations {
		vk = append(vk, k)
	}
	sort.Strings(vk)
	const maxReported = 4
	for i, k := range vk {
		if i >= maxReported && replayPath == "" {
			// the shards usually re-find the same defect; keep the output and /verif/replay small
			os.RemoveAll(k)
			continue
		}
		fmt.Fprintf(os.Stderr, "--- %s\n%s\n", k, pipeline.Clip(violations[k], 900))
		fmt.Printf("VIOLATION property=%s replay=%s\n", id, k)
	}
	if len(vk) > maxReported && replayPath == "" {
		fmt.Fprintf(os.Stderr, "(%d further failing cases from other shards not kept)\n", len(vk)-maxReported)
	}
	if st := gitStatus(); st != "" && os.Getenv("VERIF_ALLOW_DIRTY") == "" {
		_ = st // the repository may legitimately be edited by the caller; we never write to it
	}
	if len(violations) > 0 {
		return 1
	}
	if len(incon) > 0 {
		for i, s := range incon {
			if i >= 3 {
				fmt.Fprintf(os.Stderr, "INCONCLUSIVE: … and %d more\n", len(incon)-3)
				break
			}
			fmt.Fprintln(os.Stderr, "INCONCLUSIVE:", s)
		}
		return 2
	}
	fmt.Printf("OK property=%s tier=%s seed=%d evaluations=%d distinct_nontrivial=%d wall=%.1fs\n", id, tier, seed, ev.Coverage.Evaluations, ev.Coverage.DistinctNontrivial, ev.WallS)
	return 0
}

func gitStatus() string { return "" }

func hasJSON(dir string) bool {
	found := false
	filepath.Walk(dir, func(p string, info os.FileInfo, err error) error {
		if err == nil && !info.IsDir() && strings.HasSuffix(p, ".json") {
			found = true
		}
		return nil
	})
	return found
}

func tail(s string, n int) string {
	lines := strings.Split(s, "\n")
	if len(lines) > n {
		lines = lines[len(lines)-n:]
	}
	return strings.Join(lines, "\n")
}

func copyRapidFail(jobDir, dst string) {
	filepath.Walk(filepath.Join(jobDir, "testdata"), func(p string, info os.FileInfo, err error) error {
		if err == nil && !info.IsDir() && strings.HasSuffix(p, ".fail") {
			pipeline.CopyFile(p, filepath.Join(dst, "rapid.fail"), 0o644)
		}
		return nil
	})
}

func warmCache(scratch, snap, gocache string) pipeline.Result {
	w := filepath.Join(scratch, "warm")
	if err := pipeline.WorkModule(w, snap); err != nil {
		return pipeline.Result{Exit: 1, Stderr: err.Error()}
	}
	os.MkdirAll(filepath.Join(w, "p"), 0o755)
	src := `package main

import (
	"fmt"
	"github.com/karino2/folang/pkg/buf"
	"github.com/karino2/folang/pkg/dict"
	"github.com/karino2/folang/pkg/frt"
	"github.com/karino2/folang/pkg/slice"
	"github.com/karino2/folang/pkg/strings"
	"github.com/karino2/folang/pkg/sys"
)

func main() {
	b := buf.New()
	buf.Write(b, strings.Concat(",", slice.Map(func(i int) string { return frt.Sprintf1("%d", i) }, []int{1, 2})))
	d := dict.New[string, int]()
	dict.Add(d, "a", len(sys.Args()))
	fmt.Println(buf.String(b), frt.OpEqual(1, 1))
}
`
	os.WriteFile(filepath.Join(w, "p", "main.go"), []byte(src), 0o644)
	return pipeline.GoBuild(w, gocache, filepath.Join(w, "p.bin"), "./p")
}

func runShard(j *shardJob, id, tier string, seed int, testBin, snap string, env map[string]string, timeout time.Duration) {
	args := []string{"-test.run", "^" + j.test.Name + "$", "-test.v", "-test.timeout", "0", "-test.count", "1"}
	if j.test.Rapid {
		rs := 1 + seed*1000003 + j.shard*7919 + j.testIdx*104729
		if rs == 0 {
			rs = 1
		}
		shrink := "30s"
		if tier == "thorough" {
			shrink = "120s"
		}
		args = append(args, fmt.Sprintf("-rapid.seed=%d", rs), fmt.Sprintf("-rapid.checks=%d", j.checks), "-rapid.shrinktime="+shrink)
		if j.test.Steps > 0 {
			args = append(args, fmt.Sprintf("-rapid.steps=%d", j.test.Steps))
		}
	}
	e := append(os.Environ(),
		"VERIF_ID="+id, "VERIF_TIER="+tier, "VERIF_SEED="+strconv.Itoa(seed),
		"VERIF_SHARD="+strconv.Itoa(j.shard), "VERIF_NSHARDS="+strconv.Itoa(j.nshards),
		"VERIF_SCRATCH="+j.dir, "VERIF_REPO="+snap,
		"VERIF_EVLOG="+filepath.Join(j.dir, "evlog.jsonl"),
		"VERIF_FAILDIR="+filepath.Join(j.dir, "lastfail"),
		"VERIF_DIR="+verifDir,
		"VERIF_REPLAY="+j.replay,
		"GOTRACEBACK=single",
	)
	if !j.test.Rapid && j.checks > 0 {
		e = append(e, "VERIF_BUDGET="+strconv.Itoa(j.checks))
	}
	for k, v := range env {
		e = append(e, k+"="+v)
	}
	// cwd = job dir, so rapid's testdata/ fail files land in scratch
	r := pipeline.Run(pipeline.Opts{Dir: j.dir, Env: e, Timeout: timeout}, testBin, args...)
	j.exit = r.Exit
	j.timedOut = r.TimedOut
	j.log = r.Stdout + r.Stderr
	j.dur = r.Dur
	if r.Signal != "" || r.Err != nil {
		j.exit = -1
	}
	if m := rePassed.FindStringSubmatch(j.log); m != nil {
		j.passed, _ = strconv.Atoi(m[1])
	}
	if strings.Contains(j.log, "no tests to run") {
		j.exit = -1
		j.log += "\n(test function " + j.test.Name + " not found)"
	}
}

// evidence -----------------------------------------------------------------

type coverage struct {
	Evaluations        int            `json:"evaluations"`
	DistinctNontrivial int            `json:"distinct_nontrivial"`
	Rule               string         `json:"rule"`
	Samples            []any          `json:"samples"`
	Exhaustive         bool           `json:"exhaustive,omitempty"`
	Labels             map[string]int `json:"labels,omitempty"`
	PerTest            map[string]int `json:"evaluations_per_test,omitempty"`
	Parts              []any          `json:"parts,omitempty"`
	Shards             int            `json:"shards,omitempty"`
}

type evidence struct {
	PropertyID    string   `json:"property_id"`
	Tier          string   `json:"tier"`
	Seed          int      `json:"seed"`
	Level         string   `json:"level"`
	Coverage      coverage `json:"coverage"`
	Assumptions   []string `json:"assumptions"`
	WallS         float64  `json:"wall_s"`
	Violations    int      `json:"violations"`
	KnownFindings []string `json:"known_findings,omitempty"`
	Technique     string   `json:"technique,omitempty"`

	distinct map[string]bool
	metaSeen map[string]bool
}

func newEvidence(id, tier string, seed int, cfg *propCfg) *evidence {
	return &evidence{PropertyID: id, Tier: tier, Seed: seed, Level: "exploration",
		Coverage:    coverage{Rule: cfg.Rule, Labels: map[string]int{}, PerTest: map[string]int{}, Samples: []any{}},
		Assumptions: cfg.Assumptions, Technique: cfg.Technique,
		distinct: map[string]bool{}, metaSeen: map[string]bool{}}
}

func (ev *evidence) merge(path string) {
	f, err := os.Open(path)
	if err != nil {
		return
	}
	defer f.Close()
	ev.Coverage.Shards++
	sc := bufio.NewScanner(f)
	sc.Buffer(make([]byte, 1<<20), 64<<20)
	for sc.Scan() {
		var r struct {
			T  string          `json:"t"`
			H  string          `json:"h"`
			NT bool            `json:"nt"`
			L  []string        `json:"l"`
			S  json.RawMessage `json:"s"`
			M  json.RawMessage `json:"m"`
			N  int             `json:"n"`
		}
		if json.Unmarshal(sc.Bytes(), &r) != nil {
			continue
		}
		if len(r.M) > 0 {
			k := r.T + string(r.M)
			if !ev.metaSeen[k] {
				ev.metaSeen[k] = true
				var m any
				json.Unmarshal(r.M, &m)
				if mm, ok := m.(map[string]any); ok {
					mm["test"] = r.T
					if ex, ok := mm["exhaustive"].(bool); ok && ex {
						ev.Coverage.Exhaustive = true
					}
				}
				ev.Coverage.Parts = append(ev.Coverage.Parts, m)
			}
			continue
		}
		n := r.N
		if n <= 0 {
			n = 1
		}
		ev.Coverage.Evaluations += n
		ev.Coverage.PerTest[r.T] += n
		if r.NT && r.H != "" {
			ev.distinct[r.H] = true
		}
		for _, l := range r.L {
			ev.Coverage.Labels[l] += n
		}
		if len(r.S) > 0 && len(ev.Coverage.Samples) < 6 {
			var s any
			json.Unmarshal(r.S, &s)
			ev.Coverage.Samples = append(ev.Coverage.Samples, map[string]any{"test": r.T, "nontrivial": r.NT, "case": s})
		}
	}
}

func (ev *evidence) write(path string) error {
	ev.Coverage.DistinctNontrivial = len(ev.distinct)
	os.MkdirAll(filepath.Dir(path), 0o755)
	b, err := json.MarshalIndent(ev, "", " ")
	if err != nil {
		return err
	}
	return os.WriteFile(path, append(b, '\n'), 0o644)
}

// manifest -------------------------------------------------------------------

func writeManifest() int {
	type level struct {
		Category  string `json:"category"`
		Text      string `json:"text"`
		DesignRef string `json:"design_ref,omitempty"`
	}
	type check struct {
		PropertyID string `json:"property_id"`
		Quick      string `json:"quick_cmd"`
		Thorough   string `json:"thorough_cmd"`
		Evidence   string `json:"evidence_file"`
		Replay     string `json:"replay_cmd_template"`
		Engine     string `json:"engine"`
		Level      level  `json:"level_claimed"`
		Note       string `json:"level_note"`
		Technique  string `json:"technique"`
	}
	type na struct {
		PropertyID string `json:"property_id"`
		Reason     string `json:"reason"`
	}
	var checks []check
	claimed := map[string]bool{}
	sorted := append([]propCfg{}, props...)
	sort.Slice(sorted, func(i, j int) bool { return sorted[i].ID < sorted[j].ID })
	for _, p := range sorted {
		claimed[p.ID] = true
		checks = append(checks, check{
			PropertyID: p.ID,
			Quick:      "./check.sh " + p.ID + " quick",
			Thorough:   "./check.sh " + p.ID + " thorough",
			Evidence:   "/verif/evidence/" + p.ID + ".json",
			Replay:     "./check.sh replay {path}",
			Engine:     "vcheck",
			Level:      level{Category: "exploration", Text: p.LevelText, DesignRef: p.DesignRef},
			Note:       p.LevelNote,
			Technique:  p.Technique,
		})
	}
	var nas []na
	f, err := os.Open(filepath.Join(verifDir, "properties.jsonl"))
	if err == nil {
		sc := bufio.NewScanner(f)
		sc.Buffer(make([]byte, 1<<20), 16<<20)
		for sc.Scan() {
			var p struct {
				ID string `json:"id"`
			}
			if json.Unmarshal(sc.Bytes(), &p) == nil && p.ID != "" && !claimed[p.ID] {
				nas = append(nas, na{p.ID, notBuiltReason(p.ID)})
			}
		}
		f.Close()
	}
	if nas == nil {
		nas = []na{}
	}
	m := map[string]any{
		"version":   1,
		"setup_cmd": "./setup.sh",
		"hooks": map[string]any{
			"guard":            "verif",
			"enable":           "no source hooks exist: the checks build /repo as it is (the only instrumentation, a permuting pkg/dict for C05, is injected at build time with go build -overlay from a file derived from the current dict.go)",
			"baseline_off_cmd": "./baseline.sh",
			"source_commits":   []string{},
			"add_only":         true,
		},
		"engines": []map[string]any{{
			"name": "vcheck", "path": "/verif/harness/cmd/vcheck",
			"serves_properties": func() []string {
				var ids []string
				for _, p := range sorted {
					ids = append(ids, p.ID)
				}
				return ids
			}(),
			"kind_free_text": "Go orchestrator around pgregory.net/rapid v1.3.0 property tests (plus exhaustive enumerations of the finite sub-domains the properties name): snapshots /repo's working tree, rebuilds fc/tinyfo/build_sample_md from it, shards by seed over 16 processes, merges per-case logs into the evidence file, saves shrunk failing cases as replayable JSON",
		}},
		"checks":         checks,
		"not_applicable": nas,
		"notes":          "All checks: exit 0 = held (possibly with KNOWN-FINDING lines), 1 = VIOLATION line(s), 2 = inconclusive infrastructure problem (never a violation). VERIF_SEED selects the rapid seeds. See DESIGN.md.",
	}
	b, _ := json.MarshalIndent(m, "", " ")
	if err := os.WriteFile(filepath.Join(verifDir, "MANIFEST.json"), append(b, '\n'), 0o644); err != nil {
		fmt.Fprintln(os.Stderr, err)
		return 2
	}
	return 0
}

func notBuiltReason(id string) string {
	return "check not built yet (construction order in DESIGN.md section 8); the technique applies and the property will be claimed once its check is green on the unchanged tree"
}

// buildFCB regenerates fc/gen_*.go from fc/*.fo with the compiler built from the checked-in gen
// files (the recipe of fc/fc_all.sh). If the result differs from the checked-in files it builds a
// second compiler from the regenerated ones and returns its path.
func buildFCB(scratch, snap, fcA, bin string) (string, string) {
	regen := filepath.Join(scratch, "regen")
	if err := pipeline.CopyTree(filepath.Join(snap, "fc"), filepath.Join(regen, "fc")); err != nil {
		return "", "second compiler variant: " + err.Error()
	}
	if err := pipeline.CopyTree(filepath.Join(snap, "pkg"), filepath.Join(regen, "pkg")); err != nil {
		return "", "second compiler variant: " + err.Error()
	}
	b, err := os.ReadFile(filepath.Join(snap, "fc", "fc_all.sh"))
	if err != nil {
		return "", ""
	}
	var args []string
	for _, line := range strings.Split(string(b), "\n") {
		line = strings.TrimSpace(line)
		if strings.HasPrefix(line, "./fc ") {
			for _, f := range strings.Fields(line)[1:] {
				args = append(args, strings.ReplaceAll(f, "$PKG_INFO", "../pkg/pkg_all.foi"))
			}
		}
	}
	if len(args) == 0 {
		return "", ""
	}
	r := pipeline.RunFC(fcA, filepath.Join(regen, "fc"), 5*time.Minute, args...)
	if r.Exit != 0 || r.TimedOut {
		return "", "second compiler variant: fc fails on its own sources (C04 reports this)"
	}
	gens, _ := filepath.Glob(filepath.Join(regen, "fc", "gen_*.go"))
	if fr := pipeline.Gofmt(gens...); fr.Exit != 0 {
		return "", "second compiler variant: gofmt rejects the regenerated compiler (C04 reports this)"
	}
	same := true
	for _, g := range gens {
		x, _ := os.ReadFile(g)
		y, err := os.ReadFile(filepath.Join(snap, "fc", filepath.Base(g)))
		if err != nil || string(x) != string(y) {
			same = false
		}
	}
	if same {
		os.RemoveAll(regen)
		return "", ""
	}
	// the regenerated tree needs the module files and the other packages beside it
	for _, d := range []string{"go.mod", "go.sum"} {
		pipeline.CopyFile(filepath.Join(snap, "fc", d), filepath.Join(regen, "fc", d), 0o644)
	}
	out := filepath.Join(bin, "fcB")
	br := pipeline.BuildTool(regen, "fc", out)
	if br.Exit != 0 {
		return "", "second compiler variant: the regenerated compiler does not build (C04 reports this)"
	}
	return out, ""
}
