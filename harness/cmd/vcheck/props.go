package main

type testCfg struct {
	Name         string
	Rapid        bool
	Quick        int // total rapid cases (rapid) or budget hint per shard (plain), quick tier
	Thorough     int
	ShardsQ      int
	ShardsT      int
	Steps        int // -rapid.steps for state machines
	ThoroughOnly bool
}

type propCfg struct {
	ID          string
	Pkg         string
	Needs       []string // fc, tinyfo, bsm, gocache
	Tests       []testCfg
	Rule        string
	Technique   string
	Assumptions []string
	LevelText   string // MANIFEST level_claimed.text
	LevelNote   string // MANIFEST level_note
	DesignRef   string
}

func findProp(id string) *propCfg {
	for i := range props {
		if props[i].ID == id {
			return &props[i]
		}
	}
	return nil
}

var props = []propCfg{
	{
		ID: "C13", Pkg: "props/c13",
		Tests: []testCfg{
			{Name: "TestSliceSpec", Rapid: true, Quick: 48000, Thorough: 3200000, ShardsQ: 16, ShardsT: 16},
		},
		Rule:      "rapid draws (function of pkg/slice, element type int|string, slice of length 0..12 (sometimes up to 40, sometimes a power of two up to 1024 +-1) with duplicates / sorted / reversed / constant shapes and, one time in seven, elements from the ends of the int range (MinInt64, MaxInt64, +-2^62 ...), in-domain index or count incl. both ends, function argument from a closed-form family); result compared with an independent list model (Sort/SortBy: ascending + permutation). Non-trivial = input length >= 2 or an argument on a boundary (0, len-1, len); distinct = hash of (function, inputs, arguments).",
		Technique: "property-based testing (rapid) against an independent list model",
		LevelText: "Generated-input search: every function of pkg/slice is compared with an independent list model on tens of thousands (quick) to millions (thorough) of generated slices, arguments and function arguments, including all boundary indices and counts; a failure is shrunk by rapid and saved as a replayable case. This is the right level because the property quantifies over all inputs of pure functions with a simple executable specification; it does not prove absence.",
		LevelNote: "Trusted: the list model (harness/listmodel), Go's runtime. Assumes inputs inside each function's documented domain; Sort/SortBy are checked as 'ascending permutation' (stability is not promised).",
		DesignRef: "DESIGN.md section 4, C13",
		Assumptions: []string{
			"the list model in props/c13/model.go is the specification (written from the F# List documentation the package cites)",
			"inputs stay in each function's domain (non-empty for Head/Tail/Last/PopLast, 0<=i<len for Item, 0<=n<=len for Take/Skip, equal lengths for Zip)",
			"nil and empty results are the same slice value (compared by length and contents)",
		},
	},
	{
		ID: "C12", Pkg: "props/c12",
		Tests: []testCfg{
			{Name: "TestSlicePurity", Rapid: true, Quick: 3200, Thorough: 160000, ShardsQ: 16, ShardsT: 16, Steps: 40},
		},
		Rule:      "rapid state machine: a pool of live []int / []string values (literals with and without spare capacity, one in twelve long - 8..130 elements -, slice.New); each step applies one slice-package function (PushLast PushHead PopLast Tail Take Skip Append Concat Collect Map Mapi Filter Sort SortBy Distinct Zip, plus the non-slice-returning ones) to pool members chosen with a bias towards re-using the same source; the result joins the pool. After every step every pool value is compared with the deep snapshot taken when it was produced, and the new value with the list model. Non-trivial = a history in which a value with cap>len is extended at least twice or a shortened value (PopLast/Tail/Take/Skip result) is extended; distinct = hash of the operation history.",
		Technique: "stateful property-based testing (rapid state machine) with a snapshot invariant over the history",
		LevelText: "Generated histories of slice-package calls over a shared pool of live values; the invariant 'every value still equals the snapshot taken when it was produced' is checked after every call, so aliasing through spare capacity or shared backing arrays shows up whichever later call triggers it. Histories are shrunk to a minimal call sequence. Exploration, not proof: histories up to 40 steps.",
		LevelNote: "Trusted: the snapshot comparison and the list model. A slice value is what a Folang program can observe (length and elements).",
		DesignRef: "DESIGN.md section 4, C12",
		Assumptions: []string{
			"slice values are observed through len and element reads only (what a Folang program can observe); hidden capacity is not a value",
			"element types int and string stand for all element types (the functions are generic and never inspect elements)",
		},
	},
	{
		ID: "C14", Pkg: "props/c14",
		Tests: []testCfg{
			{Name: "TestDict", Rapid: true, Quick: 8000, Thorough: 400000, ShardsQ: 4, ShardsT: 8},
			{Name: "TestStrings", Rapid: true, Quick: 16000, Thorough: 800000, ShardsQ: 4, ShardsT: 8},
			{Name: "TestBuf", Rapid: true, Quick: 4000, Thorough: 100000, ShardsQ: 2, ShardsT: 4},
			{Name: "TestBufs", Rapid: true, Quick: 4000, Thorough: 100000, ShardsQ: 2, ShardsT: 4},
			{Name: "TestFrt", Rapid: true, Quick: 24000, Thorough: 1200000, ShardsQ: 6, ShardsT: 12},
		},
		Rule:      "four rapid properties. dict: histories of Add/TryFind/ContainsKey/Item/Keys/Values/KVs/ToDict over a small key alphabet (string and int keys) against a Go map model, enumerations compared as multisets after every step; strings: every wrapper against the Go strings function with the pipeline argument order written out in the oracle, arguments built so that affixes/separators occur at the ends and repeatedly; buf: write sequences with interleaved reads, and histories over several buffers (new / write / read on any of them, a buffer created right after another one was read) against one string model per buffer; frt: Pipe/PipeUnit/IfElse/IfElseUnit/IfOnly with call counters, tuple round trips, Sprintf1/2 vs fmt (each verb alone and inside literal text with %% before and after it), Printf1 / Println with stdout captured through a pipe (formats with %%, arguments containing %), SInterP over every integer kind, floats, strings, named types, structs, slices, nil. SInterP is also called without holes (the compiler still writes % as %%) and with three holes. Non-trivial = dict history with an overwrite and an absent-key lookup | string case whose two string arguments differ | buf case with >= 2 writes | formatting case of unsigned or float kind, or any control-helper case; distinct = hash of the concrete case.",
		Technique: "property-based testing (rapid): model-based state machine for dict, differential against the Go standard library for strings/fmt, counters for the control helpers",
		Assumptions: []string{
			"floats only have to render as text that parses back to the value within 1e-6 relative tolerance (the statement promises 'without failing', not a format)",
			"dict.Item is only called on present keys",
		},
		LevelText: "Generated-input search against explicit oracles (map model, Go standard library, call counters) over tens of thousands to millions of cases; each helper's whole signature is exercised, including argument order (asymmetric arguments make a swap visible) and every Go integer kind for the formatting helpers. Exploration, not proof.",
		LevelNote: "Trusted: Go's strings/fmt/strconv as the reference for the wrappers; the map model.",
		DesignRef: "DESIGN.md section 4, C14",
	},
	{
		ID: "C10", Pkg: "props/c10", Needs: []string{"fc", "gocache"},
		Tests: []testCfg{
			{Name: "TestOpEqual", Rapid: true, Quick: 32000, Thorough: 2400000, ShardsQ: 12, ShardsT: 16},
			{Name: "TestLibraryPaths", Rapid: true, Quick: 4000, Thorough: 100000, ShardsQ: 4, ShardsT: 4},
			{Name: "TestEndToEnd", Rapid: true, Quick: 96, Thorough: 1600, ShardsQ: 16, ShardsT: 16},
		},
		Rule:      "in-process: Go types mirroring fc's representation of records (exported and lower-case fields, generic, recursive), unions (interface + case structs), tuples and slices, 24 root types up to slice nesting 3; rapid draws a model tree, builds the Go value (one slice node in 25 is long: 31..33, 63..65, 127..129 or 257 elements cycling through 1..3 generated elements) through a drawn construction path per slice (exact, nil, grown by append, spare capacity with foreign data in the hidden tail, middle of a larger array, empty suffix), and forms pairs (rebuilt copy by other paths | one place mutated | independent | sharing memory: b is a with one of its slices replaced by a's very slice value, or by a re-slice of it without its last / first element, as slice.PopLast / slice.Tail return) and triples; frt.OpEqual/OpNotEqual are compared with reference equality on the model trees, both argument orders, plus reflexivity and transitivity. Operand pairs are also built with memory shared between the operands and inside both operands (the same backing array reached at two places with different lengths). A second property compares the same contents produced by 13 different pkg/slice call paths. End to end: programs of the `equality` profile of the C01 generator (records with lower-case field names, = / <> on composite values, empty slices via slice.New and via library calls) are transpiled, compiled and run and their printed booleans compared with the reference evaluator. Non-trivial = a value containing a slice or a lower-case-field record (end to end: a program comparing composite values); distinct = hash of (type, model trees incl. paths).",
		Technique: "property-based testing (rapid) against reference structural equality on model trees; metamorphic (same contents via different construction paths)",
		Assumptions: []string{
			"first-order values only (no functions, no floats, no dicts), as the property states",
			"the mirrored Go declarations are what fc emits for the corresponding Folang declarations (checked by C03/C01 end to end)",
		},
		LevelText: "Generated-input search with an independent oracle: tens of thousands (quick) to millions (thorough) of value pairs/triples over every representation shape fc produces, with nil/empty/aliased slice layouts reached by construction rather than luck. Exploration, not proof.",
		LevelNote: "Trusted: reference equality on model trees; reflection-based value construction (unsafe is used only to fill lower-case fields, as generated code in the same package would).",
		DesignRef: "DESIGN.md section 4, C10",
	},
	{
		ID: "C04", Pkg: "props/c04", Needs: []string{"fc", "bsm"},
		Tests: []testCfg{
			{Name: "TestFixedPoint", ShardsQ: 1, ShardsT: 1},
		},
		Rule:      "exhaustive enumeration of the finite domain the property names: the 12 compiler sources (file list and order read from fc/fc_all.sh), every sample of samples/filelist.txt (recipe of samples/myfc.sh), cmd/build_sample_md/build_sample_md.fo (recipe of its fc.sh) and samples/README.md through the rebuilt build_sample_md, x compiler generation 1 (fc built from the checked-in gen_*.go) and generation 2 (fc and build_sample_md rebuilt from generation 1's output). One evaluation = one byte comparison of a gofmt'ed regenerated file with its reference (generation 1: the working tree; generation 2: generation 1's output); the set of files written must equal the expected set. Non-trivial = the compared file contains at least one top-level definition (README: always); distinct = hash of (generation, file, content).",
		Technique: "round-trip / differential over an exhaustively enumerated finite domain (two compiler generations)",
		Assumptions: []string{
			"the regeneration recipes are the ones in fc/fc_all.sh, samples/myfc.sh, cmd/build_sample_md/fc.sh (read at run time)",
			"gofmt of the local toolchain (go1.23.5) is the formatter",
		},
		LevelText: "The whole domain is finite and is enumerated completely on every run (70 byte comparisons on the pinned tree): any edit to a .fo, a gen_*.go, wrapper.go, a recipe, the file list or the README that breaks the fixed point is reported with the first differing line. This decides the property for the tree at hand.",
		LevelNote: "Trusted: go build, gofmt, byte comparison. The check says nothing about trees other than the one it is run on.",
		DesignRef: "DESIGN.md section 4, C04",
	},
	{
		ID: "C08", Pkg: "props/c08", Needs: []string{"fc"},
		Tests: []testCfg{
			{Name: "TestChainsExhaustive", ShardsQ: 16, ShardsT: 16},
			{Name: "TestChainsSampled", Rapid: true, Quick: 6400, Thorough: 160000, ShardsQ: 16, ShardsT: 16},
		},
		Rule:      "exhaustive part: every sequence of 1..4 operators over the 12 non-pipe operators between distinct un-annotated variables (22,620 chains, 150 functions per fc run; a function whose emitted grouping differs is re-decided alone). Sampled part (rapid): chains of 1..5 operators whose operands are variables, applications `g v`, parenthesised sub-chains (nesting <= 2, optionally with redundant parentheses) and `not`-prefixed operands, with `|>` at any position and a line break before any operator. Operands also include int literals (so `a -1` and `a - 1` both occur) and every operator is written with one of four spacings (blank on both sides, none, left only, right only) where the token rules allow it. The operator tree of the emitted Go return expression (go/parser; frt.OpEqual/OpNotEqual/OpNot/Pipe mapped back to = <> not |>) must equal the tree a reference parser builds from the token chain by 'split at the rightmost operator of the lowest rank' over the published table. Non-trivial = >= 2 operators of >= 2 different ranks, or equal ranks across a line break; distinct = hash of the source text.",
		Technique: "exhaustive enumeration + property-based testing (rapid) against a reference parser built from the published operator table",
		Assumptions: []string{
			"variables are un-annotated, so fc's structural unification accepts every chain; if fc rejects a chain that is ill-typed under ordinary typing the chain is skipped and counted (0 on the pinned tree), a rejected well-typed chain is a violation",
			"grouping is read from the Go text with go/parser, i.e. it is the grouping the Go compiler will see",
		},
		LevelText: "The finite domain the property names (all chains of up to 4 of the 12 non-pipe operators) is enumerated completely on every run and decided against an independently written reference parser; applications, parentheses, not, pipes and line breaks are explored by generated chains beyond that. Exhaustive within the bound, exploration beyond it.",
		LevelNote: "Trusted: go/parser, the reference parser (40 lines, different algorithm from fc's precedence climbing), the published table as transcribed from the property statement.",
		DesignRef: "DESIGN.md section 4, C08",
	},
	{
		ID: "C09", Pkg: "props/c09", Needs: []string{"fc"},
		Tests: []testCfg{
			{Name: "TestMatchExhaustive", ShardsQ: 16, ShardsT: 16},
			{Name: "TestMatchContexts", Rapid: true, Quick: 3200, Thorough: 64000, ShardsQ: 16, ShardsT: 16},
			{Name: "TestMatchSequences", Rapid: true, Quick: 3200, Thorough: 64000, ShardsQ: 16, ShardsT: 16},
		},
		Rule:      "exhaustive part: unions with n = 1..4 cases x payload mask (2^n) x every non-empty ordered subset of arms x arm form per arm (payload case: bind-and-use / `_` / no pattern; no-payload case: bare) x with/without trailing default = 21,576 candidates on every run; n = 5 with fixed arm forms sampled 1-in-7 in quick and all 405,120 candidates in thorough. Expected-reject candidates cost one fc run each (sentinel gen file in place beforehand); expected-accept candidates share files of up to 60 functions and are re-decided alone on any surprise. Sampled part (rapid): the match placed in a let right-hand side, either if branch, a first/last arm of an outer match, an arm of an outer union or string match that continues with its own `| _ ->` arm at the outer column, (must-reject candidates only) a target fc cannot type where the match is parsed - an un-annotated lambda parameter, slice.Head us - and an extra non-binding arm naming a case of another union or an undeclared name, a lambda with annotated parameter, a local function, on a let-bound value; over plain, generic, and-group and other-file union declarations. Sequences (rapid): 2..4 matches on the SAME union in one file (each in its own function and context, usually accepted ones first, the last one optionally nested in an arm of an exhaustive match on the same union): the file is rejected iff some match must be, and the diagnostic names a case the first offending match leaves uncovered - the decision for a match must not depend on the matches processed before it. Must-reject candidates also come with a repeated arm, a foreign or undeclared case name, and an un-annotated (not yet typed) target; accept candidates also stand after an earlier arm / an earlier match whose payload binder has the name of the matched parameter. Targets may also be built on the spot from a payload case (a constructor application, a let of one with an un-annotated argument, the result of a generic function), so that the type argument of a generic union is still undetermined when the match is parsed. Oracle: reject <=> (no default and a case missing); reject = non-zero exit, every KaseN named in the diagnostic is really uncovered (and at least one is named), sentinel gen file untouched; accept = exit 0, gen file written, the emitted type switch lists exactly the source arms in order plus the user default or the never-reached panic. Non-trivial = >= 2 arms not in declaration order, or a missing case that is not the last declared one; distinct = hash of the candidate.",
		Technique: "exhaustive enumeration of the bounded domain + property-based testing (rapid) for nesting contexts, against the property's own biconditional as oracle",
		Assumptions: []string{
			"the matched value has a declared union type where the match is written (annotated parameter / let-bound from one), as section 3 of DESIGN.md derives from the documents",
			"no duplicate arms (the property quantifies over subsets of arms)",
		},
		LevelText: "Complete enumeration of the domain the property names up to 4 cases on every run (up to 5 in the thorough tier), each candidate decided by the biconditional itself and by the structure of the emitted type switch; nesting contexts and declaration forms are explored by generated cases. Exhaustive within the bound, exploration beyond.",
		LevelNote: "Trusted: go/parser for reading the emitted switch; the candidate renderer. Case names KaseN are chosen so that a diagnostic naming a case can be recognised without depending on the message wording.",
		DesignRef: "DESIGN.md section 4, C09",
	},
	{
		ID: "C15", Pkg: "props/c15", Needs: []string{"fc"},
		Tests: []testCfg{
			{Name: "TestTypesExhaustive", ShardsQ: 16, ShardsT: 16},
			{Name: "TestTypesSampled", Rapid: true, Quick: 3200, Thorough: 80000, ShardsQ: 16, ShardsT: 16},
		},
		Rule:      "a type-expression AST over {int,string,bool,float,any, user record/union, external ext.Thing, package-_ type} with constructors [] , 2/3-tuples, 1/2-argument function types (incl. ()->A, A->(), A->B->()), generic user G<T>, external ext.Box<T>, ext.Pair<K,V>; printed with minimal parentheses by the documented precedence ([] > * > ->, flat arrows) and optionally redundant parentheses; placed in parameter annotation, record field, union payload, package_info signature (read from the closure type of a partial application), explicit type argument of the qualified slice.New and explicit type argument of an unqualified package_info _ function. Exhaustive: all expressions with <= 1 constructor over the full atom set in all 6 positions, and again in the record-field and payload positions of an and-group that declares the non-generic user types it mentions only later (forward references; at most 14 expressions per group because fc allots 100 placeholders per type statement), plus all 2-constructor expressions over {int,string,ext.Thing} in the record-field position (quick) / all positions and 3 constructors over {int,ext.Thing} in the field position (thorough); sampled: rapid expressions to depth 3 with redundant parentheses in all positions. Generic constructors in the grammar: a user generic record, a user generic union and dict.Dict; a sixth position is an explicit type argument on an unqualified package_info function; and-groups with forward references are a pseudo-position. The Go type found at the position (go/parser, go/types.ExprString) must equal the reference translation. One evaluation = one (expression, position) comparison. Non-trivial = combines >= 2 of {slice, tuple, function, generic} or carries redundant parentheses; distinct = hash of the expression text (per position set).",
		Technique: "exhaustive enumeration of small type expressions + property-based testing (rapid) against a reference type translator",
		Assumptions: []string{
			"the property statement's grammar is the authority ([] binds tighter than *), as it says",
			"() occurs only as the sole argument or the result of a function type",
		},
		LevelText: "Every type expression up to the stated size is enumerated and compared, in each syntactic position, with an independently written translation of the documented grammar; deeper expressions and redundant parenthesisation are explored by generated cases. Exhaustive within the bound, exploration beyond.",
		LevelNote: "Trusted: go/parser and go/types.ExprString for reading the emitted type; the 40-line reference translator.",
		DesignRef: "DESIGN.md section 4, C15",
	},
	{
		ID: "C18", Pkg: "props/c18", Needs: []string{"bsm"},
		Tests: []testCfg{
			{Name: "TestReadme", Rapid: true, Quick: 3200, Thorough: 80000, ShardsQ: 16, ShardsT: 16},
		},
		Rule:      "rapid draws a directory: 0..8 list entries `name[.fo] [title words]` (titles with several and doubled spaces, entries without title, names without .fo, the same file listed twice), empty lines anywhere in the list, final newline present or not, the tool invoked with a relative, absolute or sub-directory list path; file contents (one in twenty continues with a 70,000-character line, 30,000 short lines or 15 KB without a line end) are lines chosen to look like README structure (code fences, ### headings, the header line, a 'generated go:' link, CR, tabs, UTF-8) or raw text. One case in six makes a listed file unreadable (missing / a directory) with a sentinel README in place. List lines may end in CR LF and one listed file may be bulky (thousands of lines). Titles, names and contents also contain % verbs, braces and markdown characters. Oracle: a sequential consumer of README.md in the list's directory (header, then per non-empty list line in order: `### <title>`, opening fence, exactly the file's bytes consumed by length, closing fence, the gen_<base>.go link; only blank lines between elements, nothing after the last); fault cases: non-zero exit and the sentinel README intact. Non-trivial = >= 2 entries with at least one multi-word title and one entry without title; distinct = hash of the case.",
		Technique: "property-based testing (rapid) of the rebuilt tool against a sequential reference reader of the documented README layout",
		Assumptions: []string{
			"blank-line counts between the elements are not part of the property (exact bytes of the shipped README are C04's business)",
			"list lines are either empty or start with a file name (whitespace-only lines are not generated)",
		},
		LevelText: "Generated-input search over list files and sample contents against an explicit validity reader; thousands of directories per run, including contents that imitate the README's own structure and unreadable-file faults. Exploration, not proof.",
		LevelNote: "Trusted: the sequential reader (consumes file content by its known length, so look-alike content is unambiguous).",
		DesignRef: "DESIGN.md section 4, C18",
	},
	{
		ID: "C16", Pkg: "props/c16", Needs: []string{"fc", "gocache"},
		Tests: []testCfg{
			{Name: "TestFaults", ShardsQ: 16, ShardsT: 16},
			{Name: "TestTruncations", ShardsQ: 16, ShardsT: 16},
			{Name: "TestMutants", Rapid: true, Quick: 4800, Thorough: 160000, ShardsQ: 16, ShardsT: 16},
			{Name: "TestScale", Rapid: true, Quick: 480, Thorough: 8000, ShardsQ: 16, ShardsT: 16},
			{Name: "TestKnown", ShardsQ: 1, ShardsT: 1},
			{Name: "TestNativeFuzz", ShardsQ: 1, ShardsT: 1},
		},
		Rule:      "seeds: every samples/*.fo, build_sample_md.fo and the hand-kept programs in corpus/seeds. Mutants (rapid, 1..3 composed): truncation, token deletion/duplication/swap/replacement, indentation damage (+-k columns, tabs), an opener (comment, string, raw string, interpolation, brace, bracket, keyword) inserted anywhere or left open at end of file with/without final newline, raw bytes (NUL, 0xff, CR, partial UTF-8, BOM), line deletion/duplication/swap, a slice of another seed spliced in, span deletion, and a family of 18 self-referential definitions appended. Exhaustive parts: every truncation offset of the 4 (quick) / 14 (thorough) smallest seeds; a fixed list of argument-list faults (no arguments, missing input, directory as input, empty file, .fo after a failing .fo, .foi only), output-path faults (destination is a directory, a dangling symlink, a symlink to /dev/full; also as second file) and every opener left open at end of file. Scale (rapid): 39 templates that repeat or nest one construct N times (nested parentheses / applications / not / slice literals / lambdas / if-else, operator and pipe chains, many lets / functions / parameters / record fields / union cases / match arms / package_info entries, long literals, identifiers, comments, lines, indentation, nested and long types), N drawn on a logarithmic scale up to a per-template bound at which fc's polynomial running time stays far below the time limit. Every scale input ends with one more definition whose translation must be present when fc exits 0 (completely written). Oracle: fc ends within 15 s (re-confirmed alone with 120 s), is not killed by a signal and prints no Go runtime fatal error; exit 0 => every requested gen_*.go exists, is not the sentinel and equals what a second run in a fresh directory writes; exit != 0 => some text beyond the progress lines was printed and the sentinel at the offending (and every later) file's destination is intact. Thorough tier only: 7 minutes of Go's native coverage-guided fuzzer on an in-process copy of the compiler (fc's Go files copied inside the scratch snapshot plus one fuzz target; pkg_all.foi, then the input, fresh global tables, 10 s watchdog), seeded with the same seeds and hostile constants; every input the fuzzer reports is re-decided with the real binary through the oracle above and only a confirmed one is a violation; executions are counted as evaluations, the inputs the fuzzer kept for new coverage as non-trivial. Argument-list faults include arguments ending in neither .fo nor .foi (upper-case suffix, no suffix, empty string, a directory) next to good files; the completeness run starts from a stale, longer gen file half the time; scale templates (TestScale) grow 39 shapes to sizes bounded by the known findings. A chain of records each mentioning the next one twice is bounded at 10 links (known finding D27). Non-trivial = rejected mutants whose first changed byte lies after the seed's first complete definition, accepted mutants that differ from the seed, and all fault cases; distinct = hash of the file content / case.",
		Technique: "mutation-based fuzzing of valid programs driven by rapid (shrinkable), exhaustive truncation sweeps and fault enumeration, with a process-behaviour validity oracle",
		Assumptions: []string{
			"an ordinary Go panic message with non-zero exit is a diagnostic (the project documents that errors are panics); only runtime fatal errors, signals and hangs are not",
			"non-termination is decided by a 120 s solitary re-run (ordinary runs take milliseconds)",
			"the offending file is the one named by fc's last 'transpile: <file>' progress line",
		},
		LevelText: "Generated-input search over the byte strings around valid programs plus enumerated faults, decided by what the real fc process does (exit status, output, files). Each failure is shrunk to a minimal file. Exploration with exhaustive truncation sweeps; inputs of a few KB; does not establish absence.",
		LevelNote: "Trusted: the process runner (own process group, 1 GB address-space limit so that runaway recursion ends as a reported fatal error instead of exhausting the machine).",
		DesignRef: "DESIGN.md section 4, C16",
	},
	{
		ID: "C01", Pkg: "props/c01", Needs: []string{"fc", "gocache"},
		Tests: []testCfg{
			{Name: "TestCorpus", ShardsQ: 1, ShardsT: 1},
			{Name: "TestKnown", ShardsQ: 1, ShardsT: 1},
			{Name: "TestPrograms", Rapid: true, Quick: 320, Thorough: 6400, ShardsQ: 16, ShardsT: 16},
		},
		Rule:      "type-directed generation (rapid) of whole programs of the documented subset: shared record/union declarations (incl. self-referential ones), a prelude with the probe function and generic helpers, 1..8 units (helper functions, a recursive template, an entry function, one printing line in main), bodies built from lets, destructuring, function-valued lets, local functions (closures), lambdas, partial application of user / library / constructor functions, pipes and pipe chains, if/elif/else as statement and value, union match (all arm forms, default, any order) and string match (variable arm / default), records (permuted and qualified literals, field access, _.Field), tuples, slices, the operators, the four string literal forms (plain ones with \\t \\n \\\" \\\\ escapes) and standard-library calls incl. buf.Buffer episodes (writes direct, piped, under an if, through a partial application or a closure handed to slice.Iter) and dict.Dict episodes (dict.New with explicit type arguments / dict.ToDict, overwriting Adds, TryFind / ContainsKey / Item incl. absent keys, Keys / Values / KVs only through slice.Sort or slice.Length); one let in four reuses the name of a variable of an enclosing block (shadowing); mixed && / || chains of 3..4 probed operands grouped to either side; a one-line if without else as last statement of a then-block that is followed by else; a union / string match with valued arms written as a statement (value discarded); formats with %% and strings containing %; int literals at the widths 2^8 .. 2^53; effect probes (trace \"tN\" e) on about a fifth of the sub-expressions and on both sides of && / ||, both if branches and match arms. Also generated: prelude functions that return functions (a value-returning and a unit-returning one) used as pipe stages and slice.Iter arguments, unions some of whose cases carry a function that is applied in its arm, match payload binders that shadow the matched variable, discarded match values in statement position, dictionary and buffer episodes. A match may stand as an argument of a call or of a partial application used as a pipe stage (probed arguments on both sides, arms on continuation lines); destructuring lets may rebind a name their tuple literal still reads; field access chains a.B.C. Probes per definition are capped (fc allots 100 type variables per top-level definition). Oracle: fc must accept, go build must succeed, the binary must exit 0 and its stdout must equal, byte for byte, the trace of the independent reference evaluator (strict, left-to-right, lexical scoping). Plus the hand-kept corpus corpus/seeds/*.fo with hand-derived expected output. Non-trivial = the expected output contains at least one probe line and the program uses at least one of partial application / closure capture / match / if-as-value / pipe / lambda; distinct = hash of the source text.",
		Technique: "property-based testing (rapid) with a type-directed program generator, differential against an independent reference evaluator; compile-and-run of the emitted Go",
		Assumptions: []string{
			"programs stay inside the documented subset written down in DESIGN.md section 3 (each restriction with its source); steering counts are reported in the samples",
			"known finding D1 (a partial application re-evaluates its supplied arguments at every call) is excluded by construction: supplied arguments of stored/passed partial applications are atoms",
			"the display model for %v is the one in harness/lang/eval.go (self-tested against fmt in props/c01 TestDisplayModel)",
		},
		LevelText: "Generated-input search over whole programs with feature interactions, decided by compiling and running what fc emits against an evaluator that shares no code with fc. Hundreds (quick) to thousands (thorough) of programs of dozens of lines each; failures are shrunk by rapid to a small program and saved as source + expected output. Exploration: it cannot establish absence and covers the documented subset only.",
		LevelNote: "Trusted: the reference evaluator and display model (harness/lang), the Go toolchain. The generator avoids constructs the documents do not promise (DESIGN.md section 3).",
		DesignRef: "DESIGN.md section 4, C01",
	},
	{
		ID: "C06", Pkg: "props/c06", Needs: []string{"fc"},
		Tests: []testCfg{
			{Name: "TestKnown", ShardsQ: 1, ShardsT: 1},
			{Name: "TestLayouts", Rapid: true, Quick: 640, Thorough: 16000, ShardsQ: 16, ShardsT: 16},
			{Name: "TestDedent", Rapid: true, Quick: 640, Thorough: 8000, ShardsQ: 8, ShardsT: 16},
		},
		Rule:      "a generated program of the full profile (1..3 units) is printed once in the canonical layout and three times with a random layout plan whose every decision is an independent rapid draw inside the layout grammar of the statement: body indentation 1..9 per block, blank lines, trailing spaces, own-line // and /* */ comments (also spanning lines, and texts such as /*/ note */, /***/, /* // */, // /* not open) at any indentation, trailing comments, one-line vs multi-line if, a let right-hand side or a match arm body on the same or the next line, a multi-line arm body started on the -> line and continued under its first token, a line break before any |> (aligned or block form), one-line vs multi-line record declarations, indentation of union cases and match arms; all must yield byte-identical gen_prog.go (one evaluation = one re-laid-out text). Layout decisions also cover: an arm body starting on the -> line, match arms offset to the left or right of `match` after a next-line let right-hand side, a one-line if before an outer else, comments of the /*/ shape. Comments may also follow a line that opens a block (after = -> then else with {) and surround record fields and union cases. Converse direction (TestDedent): hand-templated nested blocks (if-only, else branch, match arm, local function) with a marked statement written at the outer column and at the inner column: the two must give different Go, and re-indenting the inner block by another amount must give the same Go again. Non-trivial (layouts) = the plan deviates from canonical in >= 3 kinds of choice and the program reaches nesting depth >= 3; all dedent cases are non-trivial; distinct = hash of the re-laid-out text.",
		Technique: "metamorphic property-based testing (rapid): same abstract program, different concrete layout => identical output; and its converse",
		Assumptions: []string{
			"layouts stay inside the grammar the property lists (no tabs, code never follows a multi-line comment on its last line)",
			"known findings D15 (dangling else captured by an inner if-only) and D16 (block starting with a $ literal) are excluded by construction in the program generator; their reproducers are re-run on every run",
		},
		LevelText: "Generated-input search with a metamorphic oracle that compares fc with itself on purpose (the relation is the property): hundreds (quick) to tens of thousands (thorough) of re-laid-out programs with independent choices at every block, statement, arm and pipe. Exploration; failures shrink to a small program and layout.",
		LevelNote: "Trusted: the printer keeps the block structure for every layout plan (it is also exercised by C01, whose programs use the canonical plan).",
		DesignRef: "DESIGN.md section 4, C06",
	},
	{
		ID: "C07", Pkg: "props/c07", Needs: []string{"fc"},
		Tests: []testCfg{
			{Name: "TestHistories", Rapid: true, Quick: 800, Thorough: 24000, ShardsQ: 16, ShardsT: 16},
			{Name: "TestSharedFieldRecords", Rapid: true, Quick: 800, Thorough: 16000, ShardsQ: 16, ShardsT: 16},
		},
		Rule:      "a generated program (full profile, 1..4 units) is a sequence of top-level items (type declarations, prelude functions, helper/entry functions, main) with a reference relation computed from the identifiers each item mentions. rapid draws a history transformation: delete a random set of items nothing kept refers to; emit the kept items in a different topological order; merge in the items of an independently generated unrelated program (own types, matches, lambdas, _.Field, disjoint names) at random positions; cut the sequence into 2..4 files placed in different directories and passed to one fc invocation in order, a cut consisting only of type declarations optionally becoming a .foi file. Oracle: both runs exit 0; the files written are exactly gen_<base>.go next to each .fo argument and nothing for .foi; every Go declaration (func, type, var, method; found with go/parser) that occurs in both runs is identical after renaming compiler temporaries _vN per declared object (parser scope resolution) in order of first occurrence. Non-trivial = a non-identity transformation with at least one kept function that contains a match, a _.Field shorthand or a generic instantiation; distinct = hash of the case. TestSharedFieldRecords aims the same transformations and oracle at the state fc keeps longest, the lookup of a record by its field names: small programs with 1..2 field-name sets, 2..3 records per set (names drawn so that a later one may sort before an earlier one) declared at random places among 2..5 functions per set that return / bind / compare unqualified literals (fields in any order), read fields through a parameter annotated with one of the records, or write a qualified literal; also an and-group with a forward reference used with and without annotations, and two unions that share a case name (bare in one, with payload in the other, the later declaration wins) with uses between and after them; every function is unreferenced, so any subset can be deleted (non-trivial = non-identity transformation). The shared-state programs also contain a record named like a type parameter (V / K / T) next to a raw package_info item using that letter, and and-groups Cfg/Lim read through un-annotated parameters. A further transformation puts 60 or 130 unrelated and-groups in front.",
		Technique: "metamorphic property-based testing (rapid) over definition histories: transformations of the top-level item sequence must leave each surviving definition's Go unchanged",
		Assumptions: []string{
			"later files see earlier files' definitions; files are passed in dependency order",
			"declarations are compared through go/printer after temp renaming (layout of the emitted text is not part of this property)",
		},
		LevelText: "Generated histories of the single long-lived parse state (what was processed before a definition) with an oracle that compares fc with itself on purpose; hundreds (quick) to tens of thousands (thorough) of transformed programs. Exploration.",
		LevelNote: "Trusted: go/parser's local scope resolution for the _vN renaming; the identifier-based reference relation (a superset of the real one, so transformations never separate a definition from something it needs).",
		DesignRef: "DESIGN.md section 4, C07",
	},
	{
		ID: "C05", Pkg: "props/c05", Needs: []string{"fc", "fcperm"},
		Tests: []testCfg{
			{Name: "TestDeterminism", Rapid: true, Quick: 320, Thorough: 8000, ShardsQ: 16, ShardsT: 16},
		},
		Rule:      "programs of the many-dicts profile: >= 3 records (half of them with a twin record that has exactly the same field names, so unqualified literals are ambiguous) and >= 2 unions, 1..3 generated units with matches and lambdas, three package_info blocks (one for package _, one declaring three types that are used by name in annotations) with 3..7 entries each plus functions that use them and a function with 6 un-annotated parameters, some parameter annotations erased, and deliberately broken variants (a union arm removed => non-exhaustive match, an unknown identifier) for the accept/reject half. Each program is run under 9 enumeration orders: 3 repetitions of the unmodified fc in fresh processes (Go's random map order) and fc built with a build-time overlay of pkg/dict (derived from the current dict.go) whose Keys/Values/KVs return the entries sorted, reversed, rotated by a drawn amount, in 3 drawn shuffles, and twice in the mode where every single enumeration gets its own shuffle (two range loops over one Go map need not agree, so Keys d and Values d may not correspond). The program pool includes two hand-templated functions whose equivalence classes stay unresolved across a let (field access on an undetermined record / any), and package_info blocks with three types. One program in four is made untidy: an import written twice, unused or repeated extra imports. Oracle: every run has the same accept/reject decision and byte-identical gen_prog.go (diagnostic text is not compared). One evaluation = one fc run. Non-trivial = the program puts >= 2 entries into at least two of the dictionaries fc enumerates (record table, package_info tables, equivalence sets of inference variables) and was run under >= 3 orders; distinct = hash of the source.",
		Technique: "metamorphic property-based testing (rapid) with controlled nondeterminism: the same input under adversarial dictionary enumeration orders (build-time overlay) and repeated processes must give identical output",
		Assumptions: []string{
			"fc consults no clock, environment or goroutine scheduling; dictionary order and process identity are the only sources of nondeterminism explored",
			"the overlay changes only the order in which pkg/dict enumerates entries (it is derived from the working tree's dict.go at build time; if dict.go cannot be patched the run falls back to natural repetitions and says so in the evidence)",
		},
		LevelText: "Generated programs with many dictionary entries, each transpiled under adversarially permuted enumeration orders that are controlled, not sampled by luck; any dependence on order shows as a byte difference or a changed accept/reject decision and shrinks to a small program plus two orders. Exploration.",
		LevelNote: "Trusted: the derived dict shim (60 lines) and go build -overlay.",
		DesignRef: "DESIGN.md section 4, C05",
	},
	{
		ID: "C17", Pkg: "props/c17", Needs: []string{"fc", "tinyfo", "gocache"},
		Tests: []testCfg{
			{Name: "TestKnown", ShardsQ: 1, ShardsT: 1},
			{Name: "TestTinyfo", Rapid: true, Quick: 240, Thorough: 4800, ShardsQ: 16, ShardsT: 16},
		},
		Rule:      "the program generator restricted to the tinyfo profile: every parameter annotated, typed probe functions (traceI/traceS/traceB), no lambdas / fun, no * and /, no interpolation or raw strings (plain string literals include \\t \\n \\\" \\\\ escapes), pairs only, non-generic non-recursive records and unions, union match (all arm forms, default, any order), if/elif/else and if-only, destructuring, pipes, partial application of user, library and constructor functions, function-valued lets, recursion with a result annotation, a let's right-hand side on the let line, slice literals parenthesised when they are arguments, no empty slices, library access through an inline package_info block in tinyfo's dialect. Oracle: three-way - tinyfo's Go compiles and its stdout equals the reference evaluator's trace and equals the stdout of fc's translation of the same source. Non-trivial = the expected output contains a probe line and the program uses partial application / match / if-else / pipe / a function-valued let; distinct = hash of the source.",
		Technique: "property-based testing (rapid) with the C01 program generator restricted to a profile; three-way differential (tinyfo, reference evaluator, fc), compile-and-run",
		Assumptions: []string{
			"the subset is the one tinyfo was observed to accept (DESIGN.md C17): recursion needs a result annotation, a generic library function is not stored partially applied, slice literals are not bare arguments",
			"known finding D13 (no String() for unions) is excluded by construction: values whose type contains a union are never formatted with %v; D1 applies to tinyfo as well and is excluded as in C01",
		},
		LevelText: "Generated programs of the early-Folang subset, decided by compiling and running tinyfo's output against two independent references. Hundreds (quick) to thousands (thorough) of programs. Exploration.",
		LevelNote: "Trusted: the reference evaluator, the Go toolchain; fc's translation serves as a second reference (it is itself checked by C01).",
		DesignRef: "DESIGN.md section 4, C17",
	},
	{
		ID: "C11", Pkg: "props/c11", Needs: []string{"fc", "gocache"},
		Tests: []testCfg{
			{Name: "TestSingleCharacters", ShardsQ: 16, ShardsT: 16},
			{Name: "TestRandomLiterals", Rapid: true, Quick: 160, Thorough: 6400, ShardsQ: 16, ShardsT: 16},
		},
		Rule:      "a literal = (form in {\"...\", `...`, $\"...\", $`...`}, intended text, holes). The renderer writes the text in the form's documented source syntax (\\n \\t \\\\ \\\" escapes in quoted forms, everything raw in backtick forms, \\{ \\} for literal braces in $\"...\"); texts a form cannot denote (a backtick in raw forms, braces in $`...`) are outside its domain. Exhaustive part: every character of printable ASCII, newline, tab and 6 multi-byte runes, alone, on both sides of each of \\ \" { } %, and around a hole, in each of the 4 forms (about 3,900 literals, 60 per program; thorough adds all two-sided neighbour pairs). Sampled part (rapid): texts of 0..12 pieces (one in forty preceded by a body of 255..65536 bytes around buffer sizes) drawn from the alphabet and from hostile pieces (%s %d \\n {} \\\\ %% ...) with 0..4 holes bound to variables of type int (incl. negative), string (containing % and braces), bool, tuple, slice, record, union. Every literal is printed with frt.Printf1 \"%q\\n\" by a transpiled, compiled and executed program; oracle: strconv.Unquote of the printed line equals the intended text with each hole replaced by the value's display form. Every literal is additionally used as a string-match pattern against its own intended text (a helper function per literal) and must select its arm. A failing batch is re-decided literal by literal. One evaluation = one literal. Non-trivial = the literal's value contains a character special to one of the three layers (\\ \" { } % $ `, newline, non-ASCII); distinct = hash of (form, source text).",
		Technique: "round-trip property (text -> Folang literal -> Go literal -> runtime value -> text): exhaustive single-character sweep + property-based testing (rapid), compile-and-run",
		Assumptions: []string{
			"holes contain a single variable name (all documented examples); display forms are those of the C01 display model",
			"characters outside printable ASCII / newline / tab / valid UTF-8 are outside the property's domain",
		},
		LevelText: "Exhaustive sweep of every single character (and its special neighbours) in all four literal forms on every run, plus generated literals with holes, decided end to end through fc, the Go compiler and the runtime. Exhaustive within the bound, exploration beyond.",
		LevelNote: "Trusted: strconv.Unquote / %q as an unambiguous observation channel; the 30-line renderer of the documented literal syntax.",
		DesignRef: "DESIGN.md section 4, C11",
	},
	{
		ID: "C03", Pkg: "props/c03", Needs: []string{"fc", "gocache"},
		Tests: []testCfg{
			{Name: "TestDeclarations", Rapid: true, Quick: 160, Thorough: 3200, ShardsQ: 16, ShardsT: 16},
			{Name: "TestForeignCalls", Rapid: true, Quick: 160, Thorough: 3200, ShardsQ: 16, ShardsT: 16},
			{Name: "TestRecursiveDeclarations", Rapid: true, Quick: 160, Thorough: 3200, ShardsQ: 16, ShardsT: 16},
		},
		Rule:      "(i) declarations: 2..5 random record / union declarations (generic or not, upper- and lower-case type and field names, field and payload types over int/string/bool/slices/2- and 3-tuples/earlier records and unions/type parameters), and per used type a Folang function with a unit parameter that builds a value, a top-level variable (read by the Go client through its address; a quarter of the uses add a top-level variable holding a lambda, which the client wraps with a counting function before a Folang function calls it), a function showing a value, a function with unit result, an identity function, plus functions with 2..4 parameters; together with a GENERATED GO CLIENT in the same package that uses them only through the documented names: struct literals R{F: v} / R[int]{...} and field reads, New_U_C(v), the New_U_C variable, New_U_C[T](v) / New_U_C[T]() for generic unions, a type switch over U_C reading .Value, frt.Tuple2/3 literals with E0..E2, calls f(a, b) in parameter order, no parameter for (), no result for unit, package variables. (ii) foreign calls: random package_info blocks for package _ (implemented in the client file) and for a named sibling Go package, with 1..4-ary signatures over int/string/bool/[]int/opaque types/type parameters and generated Go implementations that print their arguments in order and return a value computed from them; Folang call sites in every arity from 1 to full: direct, through a let-bound partial application, as a pipe stage, as a higher-order argument, with explicit type arguments; a quarter of the non-generic functions get a type parameter that occurs only in the result ([]R, zero values printed), which Go cannot infer and which is therefore instantiated explicitly in every call form incl. the bare reference `x |> F<int>`. (iii) self-referential and `and`-group declarations: 1..3 groups of 1..3 records / unions whose fields and payloads mention the type being defined or another (earlier or later) member of the group below a drawn type constructor ([]X, dict.Dict<string, X>, []Bx<X>, Op<X>, int*[]X, Op<int>*Op<X>, Bx<Bx<X>>, X itself where Go allows it, ...); the Go client states the documented Go type of every such field / payload in a function signature (func chk(x Ty3) dict.Dict[string, Ty2] { return x.F3a }). Record literals on the Folang side list their fields in a drawn order; records are also built by functions with un-annotated parameters that the Go client calls with typed arguments; foreign functions with phantom type parameters; top-level variables read through their address and a top-level lambda variable wrapped by the Go client; names with underscores. Generic records and unions come with one or two type parameters (with two, case i of a union carries parameter i as it is, so constructors must list their type parameters in the declared order). Oracle: the whole package (gen_decl.go + client.go [+ sibling package]) compiles and its stdout equals what the documented representation and the foreign functions' own printing predict. Non-trivial = a generic declaration used from Go, or a foreign function of arity >= 3 applied partially; distinct = hash of the case.",
		Technique: "property-based testing (rapid) with generated Go client code and generated Go implementations: differential between the documented representation and what fc emits, decided by compiling and running",
		Assumptions: []string{
			"the documented representation is the one in the property statement (docs/specs/union.md, note.md, tutorial 4)",
			"values are first-order; records whose lower-case fields contain unions are not formatted with %v on the Folang side (fmt cannot call String() below an unexported field)",
		},
		LevelText: "Generated packages in which hand-style Go and Folang meet only through the documented names and shapes; a change of a name, of field or parameter order, of the function/variable distinction for constructors, of qualification or of closure parameter order fails compilation or changes the output. Hundreds (quick) to thousands (thorough) of packages. Exploration.",
		LevelNote: "Trusted: the generator of the Go client (it is the executable form of the documented representation), the Go toolchain.",
		DesignRef: "DESIGN.md section 4, C03",
	},
	{
		ID: "C02", Pkg: "props/c02", Needs: []string{"fc", "gocache"},
		Tests: []testCfg{
			{Name: "TestKnown", ShardsQ: 1, ShardsT: 1},
			{Name: "TestSignatures", Rapid: true, Quick: 480, Thorough: 9600, ShardsQ: 16, ShardsT: 16},
		},
		Rule:      "programs of the inference profile: fixed declarations (a record, a generic record, a union, a generic union) and 3..9 top-level functions of 1..4 parameters (base types, slices, tuples, records, unions, generic instantiations, function-typed parameters) whose bodies are built forward from the constructs the documents promise inference for: arithmetic / comparison with an operand of known type, calls of library functions with concrete and with generic signatures, lambdas passed to typed higher-order functions, tuples, slice literals, destructuring, record / generic record / union / generic union construction, field access on a known record, calls of earlier (possibly generic) user functions, a function-typed parameter applied once, pipes (also into partial applications), if/else. Two further families: staged unification (2..3 un-annotated parameters of one structured type used in separate lets that fix only the outer shape, one of them pinned, unified by a later =, if/else, slice literal or slice.Append) and fields of a parameter determined earlier (a record parameter, usually un-annotated, whose type the first statement fixes through a reader call, a comparison with a literal or a shared slice literal; later lets read its fields without adding a relation - let xs = p.HS, let (a, b) = p.HP - and use them in arithmetic, destructuring and slice.Map with an un-annotated function parameter); type variables only in the result (2..3 lets bind lambdas with unconstrained parameters, the result is a tuple of them in another order: numbering by first occurrence in the result); dictionary parameters (dict.Keys / Values / ContainsKey / TryFind; the key type is always fixed because Go's dict.Dict needs a comparable key, the value type may stay open - only inside dict.Dict<..>). One lambda parameter in three is named like an outer variable. Each parameter annotation is erased with probability 2/3 while generating, a result annotation is kept with probability 1/5. Oracle: (a) the func declaration found with go/parser in gen_prog.go (type parameter list with constraint any, parameter and result types) equals the Go mapping of the principal type computed by an independent Hindley-Milner inference (occurs check, n-ary function types, fresh instantiation per reference, monomorphic let) under exactly the annotations kept; (b) a second variant in which every further annotation is erased that the reference inference shows to leave all principal types unchanged yields byte-identical gen_prog.go; (c) the emitted package type-checks with go build together with a generated Go file that instantiates each generic function at two different type-argument lists. Dedicated families on top of the random bodies: staged unification, field access on an undetermined record, result-only type variables, dictionary parameters, lambda parameters named like outer variables, generic records / unions known half from each side, and a generic function whose type mentions one generic union at several places (the variable at a later or nested mention) instantiated at several types in one body and from generic callers. One evaluation = one function signature compared. Non-trivial = a program with at least one erased annotation or one surviving type parameter (reported per program); distinct = hash of the source.",
		Technique: "property-based testing (rapid) against an independent reference type inference (principal types) + metamorphic annotation erasure + Go type-check of the emitted package",
		Assumptions: []string{
			"only constructs for which the documentation promises inference are generated (DESIGN.md section 3); arithmetic / ordering always has an operand whose type is fixed where it is written; a function-typed parameter is applied at most once",
			"known finding D20 (a union with payload needs 'import frt' in the user's file) is excluded by construction: every program imports frt",
		},
		LevelText: "Generated functions with partially erased annotations, each signature decided against a principal type computed by code that shares nothing with fc, plus the erasure metamorphism and a real Go type-check with explicit instantiations. Thousands of signatures per quick run. Exploration.",
		LevelNote: "Trusted: the reference inference (350 lines, standard algorithm), go/parser + go/types.ExprString, the Go type checker.",
		DesignRef: "DESIGN.md section 4, C02",
	},
}
