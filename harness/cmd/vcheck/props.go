package main

type testCfg struct {
	Name         string
	Rapid        bool
	Quick        int // total rapid cases (rapid) or budget hint per shard (plain), quick tier
	Thorough     int
	ShardsQ      int
	ShardsT      int
	Steps        int // -rapid.steps for state machines
	ThoroughOnly bool
}

type propCfg struct {
	ID          string
	Pkg         string
	Needs       []string // fc, tinyfo, bsm, gocache
	Tests       []testCfg
	Rule        string
	Technique   string
	Assumptions []string
	LevelText   string // MANIFEST level_claimed.text
	LevelNote   string // MANIFEST level_note
	DesignRef   string
}

func findProp(id string) *propCfg {
	for i := range props {
		if props[i].ID == id {
			return &props[i]
		}
	}
	return nil
}

var props = []propCfg{
	{
		ID: "C13", Pkg: "props/c13",
		Tests: []testCfg{
			{Name: "TestSliceSpec", Rapid: true, Quick: 48000, Thorough: 3200000, ShardsQ: 16, ShardsT: 16},
		},
		Rule:      "rapid draws (function of pkg/slice, element type int|string, slice of length 0..12 with duplicates / sorted / reversed / constant shapes, in-domain index or count incl. both ends, function argument from a closed-form family); result compared with an independent list model (Sort/SortBy: ascending + permutation). Non-trivial = input length >= 2 or an argument on a boundary (0, len-1, len); distinct = hash of (function, inputs, arguments).",
		Technique: "property-based testing (rapid) against an independent list model",
		LevelText: "Generated-input search: every function of pkg/slice is compared with an independent list model on tens of thousands (quick) to millions (thorough) of generated slices, arguments and function arguments, including all boundary indices and counts; a failure is shrunk by rapid and saved as a replayable case. This is the right level because the property quantifies over all inputs of pure functions with a simple executable specification; it does not prove absence.",
		LevelNote: "Trusted: the list model (harness/listmodel), Go's runtime. Assumes inputs inside each function's documented domain; Sort/SortBy are checked as 'ascending permutation' (stability is not promised).",
		DesignRef: "DESIGN.md section 4, C13",
		Assumptions: []string{
			"the list model in props/c13/model.go is the specification (written from the F# List documentation the package cites)",
			"inputs stay in each function's domain (non-empty for Head/Tail/Last/PopLast, 0<=i<len for Item, 0<=n<=len for Take/Skip, equal lengths for Zip)",
			"nil and empty results are the same slice value (compared by length and contents)",
		},
	},
	{
		ID: "C12", Pkg: "props/c12",
		Tests: []testCfg{
			{Name: "TestSlicePurity", Rapid: true, Quick: 3200, Thorough: 160000, ShardsQ: 16, ShardsT: 16, Steps: 40},
		},
		Rule:      "rapid state machine: a pool of live []int / []string values (literals with and without spare capacity, slice.New); each step applies one slice-package function (PushLast PushHead PopLast Tail Take Skip Append Concat Collect Map Mapi Filter Sort SortBy Distinct Zip, plus the non-slice-returning ones) to pool members chosen with a bias towards re-using the same source; the result joins the pool. After every step every pool value is compared with the deep snapshot taken when it was produced, and the new value with the list model. Non-trivial = a history in which a value with cap>len is extended at least twice or a shortened value (PopLast/Tail/Take/Skip result) is extended; distinct = hash of the operation history.",
		Technique: "stateful property-based testing (rapid state machine) with a snapshot invariant over the history",
		LevelText: "Generated histories of slice-package calls over a shared pool of live values; the invariant 'every value still equals the snapshot taken when it was produced' is checked after every call, so aliasing through spare capacity or shared backing arrays shows up whichever later call triggers it. Histories are shrunk to a minimal call sequence. Exploration, not proof: histories up to 40 steps.",
		LevelNote: "Trusted: the snapshot comparison and the list model. A slice value is what a Folang program can observe (length and elements).",
		DesignRef: "DESIGN.md section 4, C12",
		Assumptions: []string{
			"slice values are observed through len and element reads only (what a Folang program can observe); hidden capacity is not a value",
			"element types int and string stand for all element types (the functions are generic and never inspect elements)",
		},
	},
}
