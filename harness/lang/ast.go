package lang

// Expr is an expression node. T is its static type (set by whoever builds it).
type Expr struct {
	K string // int str bool unit var call binop not if matchu matchs lambda tuple slice reclit field fieldfn pipe paren interp
	T *Type

	I int64
	S string
	B bool

	Name  string  // var: name; call: callee; binop: operator; field/fieldfn: field name; reclit: record name
	Args  []*Expr // call args; tuple/slice elements; binop [L,R]; not/paren/field [X]; pipe [L,R]; matchu/matchs: [target]; if: [cond]
	TArgs []*Type // explicit type arguments of a call / var

	Fields    []FieldInit // reclit, in written order
	Qualified bool        // reclit: first field written as Rec.Field

	Then  *Block
	Elifs []Elif
	Else  *Block // nil: if-only

	Arms    []*Arm
	Default *Block // `| _ ->`
	VarArm  *Arm   // string match: `| name ->`

	Params []Param // lambda
	Body   *Block

	StrForm string // str: plain | raw ; interp: interp | rawinterp
	Parts   []InterpPart

	Extra int // redundant parentheses to print around this node

	// OneLine: an if that every layout writes on one line (set where the multi-line form would run into
	// known finding D15)
	OneLine bool
}

type FieldInit struct {
	Name string
	E    *Expr
}

type Elif struct {
	Cond *Expr
	Body *Block
}

// Arm of a match. Union: Case + Bind ("" = no pattern, "_" = ignored, else variable). String: Lit.
type Arm struct {
	Case string
	Bind string
	Lit  string
	Body *Block
}

type InterpPart struct {
	Text string // literal text (intended meaning), or
	Var  string // a hole {Var}
	VarT *Type
}

type Param struct {
	Name  string
	T     *Type
	Annot bool
}

type Stmt struct {
	K     string // let letd letf expr
	Name  string
	Names []string // letd ("_" allowed)
	E     *Expr
	F     *FuncDecl // letf
}

type Block struct {
	Stmts []*Stmt
	Final *Expr
}

type FuncDecl struct {
	Name     string
	Params   []Param // empty = unit parameter `()`
	Ret      *Type
	RetAnnot bool
	Body     *Block
	TParams  []string // type variables of a generic function (for the model only)
}

func (f *FuncDecl) Type() *Type {
	var ps []*Type
	for _, p := range f.Params {
		ps = append(ps, p.T)
	}
	if len(ps) == 0 {
		ps = []*Type{TUnit}
	}
	return TFunc(ps, f.Ret)
}

// TopItem is one top-level item of a program, in source order.
type TopItem struct {
	Types []*TypeDecl // a type declaration group (1 decl, or several joined by `and`)
	Func  *FuncDecl
	Var   *Stmt    // top-level `let name = expr`
	Raw   string   // verbatim text (package_info blocks etc.)
	Label string   // stable identity for history transformations
	Refs  []string // labels this item refers to (filled by the generator)
}

type Program struct {
	Imports []string // computed by the printer when nil
	Items   []*TopItem
}

// convenience constructors ------------------------------------------------------------

func Int(i int64) *Expr           { return &Expr{K: "int", I: i, T: TInt} }
func Str(s string) *Expr          { return &Expr{K: "str", S: s, T: TString, StrForm: "plain"} }
func Bool(b bool) *Expr           { return &Expr{K: "bool", B: b, T: TBool} }
func Unit() *Expr                 { return &Expr{K: "unit", T: TUnit} }
func Var(n string, t *Type) *Expr { return &Expr{K: "var", Name: n, T: t} }
func Call(name string, t *Type, args ...*Expr) *Expr {
	return &Expr{K: "call", Name: name, Args: args, T: t}
}
func Bin(op string, t *Type, l, r *Expr) *Expr {
	return &Expr{K: "binop", Name: op, Args: []*Expr{l, r}, T: t}
}
func Blk(final *Expr, stmts ...*Stmt) *Block { return &Block{Stmts: stmts, Final: final} }
func Let(n string, e *Expr) *Stmt            { return &Stmt{K: "let", Name: n, E: e} }
func ExprStmt(e *Expr) *Stmt                 { return &Stmt{K: "expr", E: e} }

// Walk visits every expression of e (pre-order), descending into blocks.
func (e *Expr) Walk(f func(*Expr)) {
	if e == nil {
		return
	}
	f(e)
	for _, a := range e.Args {
		a.Walk(f)
	}
	for _, fi := range e.Fields {
		fi.E.Walk(f)
	}
	e.Then.Walk(f)
	for _, el := range e.Elifs {
		el.Cond.Walk(f)
		el.Body.Walk(f)
	}
	e.Else.Walk(f)
	for _, a := range e.Arms {
		a.Body.Walk(f)
	}
	e.Default.Walk(f)
	if e.VarArm != nil {
		e.VarArm.Body.Walk(f)
	}
	e.Body.Walk(f)
}

func (b *Block) Walk(f func(*Expr)) {
	if b == nil {
		return
	}
	for _, s := range b.Stmts {
		if s.E != nil {
			s.E.Walk(f)
		}
		if s.F != nil {
			s.F.Body.Walk(f)
		}
	}
	b.Final.Walk(f)
}

// Uses reports whether variable name occurs (as a var or callee) in the block.
func (b *Block) Uses(name string) bool {
	found := false
	b.Walk(func(e *Expr) {
		if (e.K == "var" || e.K == "call") && e.Name == name {
			found = true
		}
		if e.K == "interp" {
			for _, p := range e.Parts {
				if p.Var == name {
					found = true
				}
			}
		}
	})
	return found
}

func (e *Expr) Uses(name string) bool {
	return (&Block{Final: e}).Uses(name)
}
