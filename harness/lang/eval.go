package lang

import (
	"fmt"
	"sort"
	"strconv"
	"strings"
)

// Values -------------------------------------------------------------------------------

type Value interface{}

type UnitV struct{}
type TupleV struct{ E []Value }
type SliceV struct{ E []Value }
type RecV struct {
	Name string
	F    []Value // declaration order
}
type UnionV struct {
	Union   string
	Case    string
	Payload Value // nil: no payload
}
type BufV struct{ sb strings.Builder }

// DictV models dict.Dict: a mutable map. Iteration order is unspecified (a Go map underneath), so the
// generator only reads Keys / Values / KVs through order-insensitive consumers; the model keeps
// insertion order.
type DictV struct {
	order []string
	m     map[string][2]Value
}

func dictKey(v Value) string { return fmt.Sprintf("%T:%s", v, Show(v)) }

func (d *DictV) set(k, v Value) {
	id := dictKey(k)
	if _, ok := d.m[id]; !ok {
		d.order = append(d.order, id)
	}
	d.m[id] = [2]Value{k, v}
}

// Closure is a user function, lambda or local function, possibly partially applied.
type Closure struct {
	Params []string
	Body   *Block
	Env    *Env
	Self   string // name bound to itself inside the body (recursion), "" otherwise
	Args   []Value
}

// Builtin is a library function or constructor, possibly partially applied.
type Builtin struct {
	Name  string
	Arity int
	Args  []Value
	ResT  *Type // result type after full application (for typed zero values)
}

type Env struct {
	vars   map[string]Value
	parent *Env
}

func NewEnv(parent *Env) *Env { return &Env{vars: map[string]Value{}, parent: parent} }

func (e *Env) Get(n string) (Value, bool) {
	for c := e; c != nil; c = c.parent {
		if v, ok := c.vars[n]; ok {
			return v, true
		}
	}
	return nil, false
}

func (e *Env) Set(n string, v Value) { e.vars[n] = v }

// EvalError is raised (by panic) for anything the evaluator cannot do; the
// generator must never produce such programs, so it signals a harness bug.
type EvalError struct{ Msg string }

func (e EvalError) Error() string { return e.Msg }

func fail(format string, a ...any) { panic(EvalError{fmt.Sprintf(format, a...)}) }

type Eval struct {
	Recs    map[string]*RecDecl
	Unions  map[string]*UnionDecl
	Ctors   map[string]*UnionDecl // case name -> union
	Globals *Env
	Out     strings.Builder
	Steps   int
	Max     int
}

func NewEval(pr *Program) *Eval {
	ev := &Eval{Recs: map[string]*RecDecl{}, Unions: map[string]*UnionDecl{}, Ctors: map[string]*UnionDecl{}, Globals: NewEnv(nil), Max: 2_000_000}
	for _, it := range pr.Items {
		for _, d := range it.Types {
			if d.Rec != nil {
				ev.Recs[d.Rec.Name] = d.Rec
			}
			if d.Union != nil {
				ev.Unions[d.Union.Name] = d.Union
				for _, c := range d.Union.Cases {
					ev.Ctors[c.Name] = d.Union
				}
			}
		}
	}
	return ev
}

// Run evaluates the program: top-level items in order, then main ().
func Run(pr *Program) (out string, err error) {
	ev := NewEval(pr)
	defer func() {
		if r := recover(); r != nil {
			if ee, ok := r.(EvalError); ok {
				out, err = ev.Out.String(), ee
				return
			}
			panic(r)
		}
	}()
	for _, it := range pr.Items {
		if it.Func != nil {
			ev.Globals.Set(it.Func.Name, ev.funcValue(it.Func, ev.Globals))
		}
		if it.Var != nil {
			ev.Globals.Set(it.Var.Name, ev.expr(it.Var.E, ev.Globals))
		}
	}
	m, ok := ev.Globals.Get("main")
	if !ok {
		fail("no main")
	}
	ev.apply(m, []Value{UnitV{}})
	return ev.Out.String(), nil
}

func (ev *Eval) funcValue(f *FuncDecl, env *Env) Value {
	var ps []string
	for _, p := range f.Params {
		ps = append(ps, p.Name)
	}
	if len(ps) == 0 {
		ps = []string{"()"}
	}
	return &Closure{Params: ps, Body: f.Body, Env: env, Self: f.Name}
}

func (ev *Eval) block(b *Block, env *Env) Value {
	env = NewEnv(env)
	for _, s := range b.Stmts {
		switch s.K {
		case "let":
			// a new frame per let: a closure made earlier in this block keeps seeing the outer
			// variable when a later let of the block reuses its name
			v := ev.expr(s.E, env)
			env = NewEnv(env)
			env.Set(s.Name, v)
		case "letd":
			v := ev.expr(s.E, env)
			t, ok := v.(*TupleV)
			if !ok || len(t.E) != len(s.Names) {
				fail("destructuring a non-tuple")
			}
			// a new frame, as for let: a binder may reuse the name of an outer variable that a closure made
			// earlier in this block refers to
			env = NewEnv(env)
			for i, n := range s.Names {
				if n != "_" {
					env.Set(n, t.E[i])
				}
			}
		case "letf":
			env.Set(s.F.Name, ev.funcValue(s.F, env))
		case "expr":
			ev.expr(s.E, env)
		}
	}
	return ev.expr(b.Final, env)
}

func (ev *Eval) apply(f Value, args []Value) Value {
	ev.Steps++
	if ev.Steps > ev.Max {
		fail("step budget exceeded")
	}
	switch fn := f.(type) {
	case *Closure:
		all := append(append([]Value{}, fn.Args...), args...)
		n := len(fn.Params)
		if len(all) < n {
			return &Closure{Params: fn.Params, Body: fn.Body, Env: fn.Env, Self: fn.Self, Args: all}
		}
		env := NewEnv(fn.Env)
		if fn.Self != "" {
			env.Set(fn.Self, &Closure{Params: fn.Params, Body: fn.Body, Env: fn.Env, Self: fn.Self})
		}
		for i, p := range fn.Params {
			if p != "()" && p != "_" {
				env.Set(p, all[i])
			}
		}
		r := ev.block(fn.Body, env)
		if len(all) > n {
			return ev.apply(r, all[n:])
		}
		return r
	case *Builtin:
		all := append(append([]Value{}, fn.Args...), args...)
		if len(all) < fn.Arity {
			return &Builtin{Name: fn.Name, Arity: fn.Arity, Args: all, ResT: fn.ResT}
		}
		r := ev.builtin(fn, all[:fn.Arity])
		if len(all) > fn.Arity {
			return ev.apply(r, all[fn.Arity:])
		}
		return r
	}
	fail("applying a non-function %T", f)
	return nil
}

func truth(v Value) bool {
	b, ok := v.(bool)
	if !ok {
		fail("not a bool: %T", v)
	}
	return b
}

func num(v Value) int64 {
	i, ok := v.(int64)
	if !ok {
		fail("not an int: %T", v)
	}
	return i
}

func str(v Value) string {
	s, ok := v.(string)
	if !ok {
		fail("not a string: %T", v)
	}
	return s
}

func elems(v Value) []Value {
	s, ok := v.(*SliceV)
	if !ok {
		fail("not a slice: %T", v)
	}
	return s.E
}

func (ev *Eval) lookup(name string, env *Env, e *Expr) Value {
	if v, ok := env.Get(name); ok {
		return v
	}
	if u, ok := ev.Ctors[name]; ok {
		c := u.Case(name)
		if c.Payload == nil {
			return &UnionV{Union: u.Name, Case: name}
		}
		return &Builtin{Name: "ctor:" + name, Arity: 1}
	}
	if a, ok := builtinArity[name]; ok {
		return &Builtin{Name: name, Arity: a, ResT: finalResult(e)}
	}
	fail("unbound name %s", name)
	return nil
}

// finalResult: the type after applying every remaining parameter of the node's callee.
func finalResult(e *Expr) *Type {
	if e == nil || e.T == nil {
		return nil
	}
	t := e.T
	if e.K == "call" || e.K == "var" {
		for t.K == "func" {
			t = t.Result()
		}
	}
	return t
}

func (ev *Eval) expr(e *Expr, env *Env) Value {
	ev.Steps++
	if ev.Steps > ev.Max {
		fail("step budget exceeded")
	}
	switch e.K {
	case "int":
		return e.I
	case "str":
		return e.S
	case "bool":
		return e.B
	case "unit":
		return UnitV{}
	case "paren":
		return ev.expr(e.Args[0], env)
	case "var":
		return ev.lookup(e.Name, env, e)
	case "call":
		f := ev.lookup(e.Name, env, e)
		if u, ok := f.(*UnionV); ok && len(e.Args) == 1 && e.Args[0].K == "unit" {
			return u // None<int> (): a payload-less case of a generic union is written as a call
		}
		var args []Value
		for _, a := range e.Args {
			args = append(args, ev.expr(a, env))
		}
		return ev.apply(f, args)
	case "not":
		return !truth(ev.expr(e.Args[0], env))
	case "binop":
		switch e.Name {
		case "&&":
			if !truth(ev.expr(e.Args[0], env)) {
				return false
			}
			return truth(ev.expr(e.Args[1], env))
		case "||":
			if truth(ev.expr(e.Args[0], env)) {
				return true
			}
			return truth(ev.expr(e.Args[1], env))
		}
		l := ev.expr(e.Args[0], env)
		r := ev.expr(e.Args[1], env)
		switch e.Name {
		case "=":
			return ValueEq(l, r)
		case "<>":
			return !ValueEq(l, r)
		case "+":
			if ls, ok := l.(string); ok {
				return ls + str(r)
			}
			return num(l) + num(r)
		case "-":
			return num(l) - num(r)
		case "*":
			return num(l) * num(r)
		case "/":
			if num(r) == 0 {
				fail("division by zero")
			}
			return num(l) / num(r)
		case "<", ">", "<=", ">=":
			c := 0
			if ls, ok := l.(string); ok {
				c = strings.Compare(ls, str(r))
			} else {
				a, b := num(l), num(r)
				if a < b {
					c = -1
				} else if a > b {
					c = 1
				}
			}
			switch e.Name {
			case "<":
				return c < 0
			case ">":
				return c > 0
			case "<=":
				return c <= 0
			default:
				return c >= 0
			}
		}
		fail("unknown operator %s", e.Name)
	case "pipe":
		x := ev.expr(e.Args[0], env)
		f := ev.expr(e.Args[1], env)
		return ev.apply(f, []Value{x})
	case "tuple":
		t := &TupleV{}
		for _, a := range e.Args {
			t.E = append(t.E, ev.expr(a, env))
		}
		return t
	case "slice":
		s := &SliceV{}
		for _, a := range e.Args {
			s.E = append(s.E, ev.expr(a, env))
		}
		return s
	case "reclit":
		d := ev.Recs[e.Name]
		if d == nil {
			fail("unknown record %s", e.Name)
		}
		r := &RecV{Name: e.Name, F: make([]Value, len(d.Fields))}
		for _, fi := range e.Fields { // evaluated in source order
			v := ev.expr(fi.E, env)
			for i, df := range d.Fields {
				if df.Name == fi.Name {
					r.F[i] = v
				}
			}
		}
		return r
	case "field":
		r, ok := ev.expr(e.Args[0], env).(*RecV)
		if !ok {
			fail("field access on a non-record")
		}
		return ev.field(r, e.Name)
	case "fieldfn":
		return &Builtin{Name: "field:" + e.Name, Arity: 1}
	case "lambda":
		var ps []string
		for _, p := range e.Params {
			ps = append(ps, p.Name)
		}
		if len(ps) == 0 {
			ps = []string{"()"}
		}
		return &Closure{Params: ps, Body: e.Body, Env: env}
	case "if":
		if truth(ev.expr(e.Args[0], env)) {
			return ev.block(e.Then, env)
		}
		for _, el := range e.Elifs {
			if truth(ev.expr(el.Cond, env)) {
				return ev.block(el.Body, env)
			}
		}
		if e.Else != nil {
			return ev.block(e.Else, env)
		}
		return UnitV{}
	case "matchu":
		u, ok := ev.expr(e.Args[0], env).(*UnionV)
		if !ok {
			fail("match on a non-union")
		}
		for _, a := range e.Arms {
			if a.Case == u.Case {
				ne := NewEnv(env)
				if a.Bind != "" && a.Bind != "_" {
					ne.Set(a.Bind, u.Payload)
				}
				return ev.block(a.Body, ne)
			}
		}
		if e.Default != nil {
			return ev.block(e.Default, env)
		}
		fail("non-exhaustive match at run time")
	case "matchs":
		s := str(ev.expr(e.Args[0], env))
		for _, a := range e.Arms {
			if a.Lit == s {
				return ev.block(a.Body, env)
			}
		}
		if e.VarArm != nil {
			ne := NewEnv(env)
			ne.Set(e.VarArm.Bind, s)
			return ev.block(e.VarArm.Body, ne)
		}
		if e.Default != nil {
			return ev.block(e.Default, env)
		}
		fail("string match without default")
	case "interp":
		var sb strings.Builder
		for _, p := range e.Parts {
			if p.Var == "" {
				sb.WriteString(p.Text)
				continue
			}
			v, ok := env.Get(p.Var)
			if !ok {
				fail("unbound %s in interpolation", p.Var)
			}
			sb.WriteString(Show(v))
		}
		return sb.String()
	}
	fail("cannot evaluate %s", e.K)
	return nil
}

func (ev *Eval) field(r *RecV, name string) Value {
	d := ev.Recs[r.Name]
	for i, f := range d.Fields {
		if f.Name == name {
			return r.F[i]
		}
	}
	fail("no field %s in %s", name, r.Name)
	return nil
}

// ValueEq is structural equality on first-order values.
func ValueEq(a, b Value) bool {
	switch x := a.(type) {
	case int64:
		y, ok := b.(int64)
		return ok && x == y
	case string:
		y, ok := b.(string)
		return ok && x == y
	case bool:
		y, ok := b.(bool)
		return ok && x == y
	case UnitV:
		_, ok := b.(UnitV)
		return ok
	case *TupleV:
		y, ok := b.(*TupleV)
		return ok && eqList(x.E, y.E)
	case *SliceV:
		y, ok := b.(*SliceV)
		return ok && eqList(x.E, y.E)
	case *RecV:
		y, ok := b.(*RecV)
		return ok && x.Name == y.Name && eqList(x.F, y.F)
	case *UnionV:
		y, ok := b.(*UnionV)
		if !ok || x.Union != y.Union || x.Case != y.Case {
			return false
		}
		if x.Payload == nil || y.Payload == nil {
			return x.Payload == nil && y.Payload == nil
		}
		return ValueEq(x.Payload, y.Payload)
	}
	fail("equality on %T", a)
	return false
}

func eqList(a, b []Value) bool {
	if len(a) != len(b) {
		return false
	}
	for i := range a {
		if !ValueEq(a[i], b[i]) {
			return false
		}
	}
	return true
}

// Show models Go's %v for the value shapes Folang produces (see DESIGN.md 2.3).
func Show(v Value) string {
	switch x := v.(type) {
	case int64:
		return strconv.FormatInt(x, 10)
	case string:
		return x
	case bool:
		return strconv.FormatBool(x)
	case UnitV:
		return "{}"
	case *TupleV:
		return "{" + showList(x.E) + "}"
	case *SliceV:
		return "[" + showList(x.E) + "]"
	case *RecV:
		return "{" + showList(x.F) + "}"
	case *UnionV:
		if x.Payload == nil {
			return "(" + x.Case + ")"
		}
		return "(" + x.Case + ": " + Show(x.Payload) + ")"
	}
	fail("cannot display %T", v)
	return ""
}

func showList(vs []Value) string {
	var p []string
	for _, v := range vs {
		p = append(p, Show(v))
	}
	return strings.Join(p, " ")
}

// format models fmt.Sprintf for one or two arguments with the verbs %d %s %v.
func format(f string, args []Value) string {
	var sb strings.Builder
	ai := 0
	for i := 0; i < len(f); i++ {
		if f[i] != '%' || i+1 >= len(f) {
			sb.WriteByte(f[i])
			continue
		}
		i++
		switch f[i] {
		case '%':
			sb.WriteByte('%')
		case 'd', 's', 'v':
			if ai >= len(args) {
				fail("format %q: missing argument", f)
			}
			sb.WriteString(Show(args[ai]))
			ai++
		default:
			fail("format verb %%%c not modelled", f[i])
		}
	}
	return sb.String()
}

func zeroOf(t *Type, ev *Eval) Value {
	if t == nil {
		fail("zero value of unknown type")
	}
	switch t.K {
	case "int":
		return int64(0)
	case "string":
		return ""
	case "bool":
		return false
	case "unit":
		return UnitV{}
	case "tuple":
		tv := &TupleV{}
		for _, e := range t.E {
			tv.E = append(tv.E, zeroOf(e, ev))
		}
		return tv
	case "slice":
		return &SliceV{}
	case "rec":
		d := ev.Recs[t.Name]
		r := &RecV{Name: t.Name}
		for _, f := range d.Fields {
			r.F = append(r.F, zeroOf(f.T.Subst(tparamMap(d.TParams, t.E)), ev))
		}
		return r
	}
	fail("zero value of %s not modelled", t)
	return nil
}

// builtins -------------------------------------------------------------------------------

var builtinArity = map[string]int{
	"frt.Println": 1, "frt.Printf1": 2, "frt.Sprintf1": 2, "frt.Sprintf2": 3, "frt.Fst": 1, "frt.Snd": 1,
	"slice.Length": 1, "slice.Len": 1, "slice.IsEmpty": 1, "slice.IsNotEmpty": 1, "slice.Head": 1, "slice.Tail": 1, "slice.Last": 1,
	"slice.PopLast": 1, "slice.Item": 2, "slice.Take": 2, "slice.Skip": 2, "slice.Map": 2, "slice.Mapi": 2, "slice.Iter": 2,
	"slice.Filter": 2, "slice.Fold": 3, "slice.Forall": 2, "slice.Forany": 2, "slice.PushLast": 2, "slice.PushHead": 2,
	"slice.Append": 2, "slice.Concat": 1, "slice.Collect": 2, "slice.Zip": 2, "slice.Sort": 1, "slice.SortBy": 2, "slice.Distinct": 1,
	"slice.TryFind": 2, "slice.New": 1,
	"strings.Concat": 2, "strings.Length": 1, "strings.AppendTail": 2, "strings.AppendHead": 2, "strings.HasSuffix": 2,
	"strings.TrimSuffix": 2, "strings.HasPrefix": 2, "strings.EncloseWith": 3, "strings.Split": 2, "strings.IsEmpty": 1, "strings.IsNotEmpty": 1,
	"buf.New": 1, "buf.Write": 2, "buf.String": 1,
	"dict.New": 1, "dict.Add": 3, "dict.ContainsKey": 2, "dict.TryFind": 2, "dict.Item": 2, "dict.Keys": 1, "dict.Values": 1,
	"dict.KVs": 1, "dict.ToDict": 1,
}

func (ev *Eval) builtin(b *Builtin, a []Value) Value {
	name := b.Name
	if strings.HasPrefix(name, "ctor:") {
		c := strings.TrimPrefix(name, "ctor:")
		return &UnionV{Union: ev.Ctors[c].Name, Case: c, Payload: a[0]}
	}
	if strings.HasPrefix(name, "field:") {
		r, ok := a[0].(*RecV)
		if !ok {
			fail("_.Field on a non-record")
		}
		return ev.field(r, strings.TrimPrefix(name, "field:"))
	}
	call := func(f Value, args ...Value) Value { return ev.apply(f, args) }
	sl := func(vs []Value) Value { return &SliceV{E: vs} }
	switch name {
	case "frt.Println":
		ev.Out.WriteString(str(a[0]) + "\n")
		return UnitV{}
	case "frt.Printf1":
		ev.Out.WriteString(format(str(a[0]), a[1:2]))
		return UnitV{}
	case "frt.Sprintf1":
		return format(str(a[0]), a[1:2])
	case "frt.Sprintf2":
		return format(str(a[0]), a[1:3])
	case "frt.Fst":
		return a[0].(*TupleV).E[0]
	case "frt.Snd":
		return a[0].(*TupleV).E[1]
	case "slice.New":
		return sl(nil)
	case "slice.Length", "slice.Len":
		return int64(len(elems(a[0])))
	case "slice.IsEmpty":
		return len(elems(a[0])) == 0
	case "slice.IsNotEmpty":
		return len(elems(a[0])) != 0
	case "slice.Head":
		return nonEmpty(a[0], name)[0]
	case "slice.Last":
		s := nonEmpty(a[0], name)
		return s[len(s)-1]
	case "slice.Tail":
		return sl(append([]Value{}, nonEmpty(a[0], name)[1:]...))
	case "slice.PopLast":
		s := nonEmpty(a[0], name)
		return sl(append([]Value{}, s[:len(s)-1]...))
	case "slice.Item":
		s, i := elems(a[1]), num(a[0])
		if i < 0 || int(i) >= len(s) {
			fail("slice.Item out of range")
		}
		return s[i]
	case "slice.Take":
		s, n := elems(a[1]), num(a[0])
		if n < 0 || int(n) > len(s) {
			fail("slice.Take out of range")
		}
		return sl(append([]Value{}, s[:n]...))
	case "slice.Skip":
		s, n := elems(a[1]), num(a[0])
		if n < 0 || int(n) > len(s) {
			fail("slice.Skip out of range")
		}
		return sl(append([]Value{}, s[n:]...))
	case "slice.Map":
		var out []Value
		for _, x := range elems(a[1]) {
			out = append(out, call(a[0], x))
		}
		return sl(out)
	case "slice.Mapi":
		var out []Value
		for i, x := range elems(a[1]) {
			out = append(out, call(a[0], int64(i), x))
		}
		return sl(out)
	case "slice.Iter":
		for _, x := range elems(a[1]) {
			call(a[0], x)
		}
		return UnitV{}
	case "slice.Filter":
		var out []Value
		for _, x := range elems(a[1]) {
			if truth(call(a[0], x)) {
				out = append(out, x)
			}
		}
		return sl(out)
	case "slice.Fold":
		acc := a[1]
		for _, x := range elems(a[2]) {
			acc = call(a[0], acc, x)
		}
		return acc
	case "slice.Forall":
		for _, x := range elems(a[1]) {
			if !truth(call(a[0], x)) {
				return false
			}
		}
		return true
	case "slice.Forany":
		for _, x := range elems(a[1]) {
			if truth(call(a[0], x)) {
				return true
			}
		}
		return false
	case "slice.TryFind":
		for _, x := range elems(a[1]) {
			if truth(call(a[0], x)) {
				return &TupleV{E: []Value{x, true}}
			}
		}
		if b.ResT == nil || b.ResT.K != "tuple" {
			fail("TryFind: unknown result type")
		}
		return &TupleV{E: []Value{zeroOf(b.ResT.E[0], ev), false}}
	case "slice.PushLast":
		return sl(append(append([]Value{}, elems(a[1])...), a[0]))
	case "slice.PushHead":
		return sl(append([]Value{a[0]}, elems(a[1])...))
	case "slice.Append":
		return sl(append(append([]Value{}, elems(a[0])...), elems(a[1])...))
	case "slice.Concat":
		var out []Value
		for _, s := range elems(a[0]) {
			out = append(out, elems(s)...)
		}
		return sl(out)
	case "slice.Collect":
		var out []Value
		for _, x := range elems(a[1]) {
			out = append(out, elems(call(a[0], x))...)
		}
		return sl(out)
	case "slice.Zip":
		x, y := elems(a[0]), elems(a[1])
		if len(x) != len(y) {
			fail("slice.Zip on different lengths")
		}
		var out []Value
		for i := range x {
			out = append(out, &TupleV{E: []Value{x[i], y[i]}})
		}
		return sl(out)
	case "slice.Sort":
		out := append([]Value{}, elems(a[0])...)
		sort.SliceStable(out, func(i, j int) bool { return lessValue(out[i], out[j]) })
		return sl(out)
	case "slice.SortBy":
		// only used with injective keys (stability is not promised by the library)
		src := elems(a[1])
		keys := make([]Value, len(src))
		for i, x := range src {
			keys[i] = call(a[0], x)
		}
		idx := make([]int, len(src))
		for i := range idx {
			idx[i] = i
		}
		sort.SliceStable(idx, func(i, j int) bool { return lessValue(keys[idx[i]], keys[idx[j]]) })
		out := make([]Value, len(src))
		for i, k := range idx {
			out[i] = src[k]
		}
		return sl(out)
	case "slice.Distinct":
		var out []Value
		for _, x := range elems(a[0]) {
			dup := false
			for _, y := range out {
				if ValueEq(x, y) {
					dup = true
				}
			}
			if !dup {
				out = append(out, x)
			}
		}
		return sl(out)
	case "strings.Concat":
		var ps []string
		for _, x := range elems(a[1]) {
			ps = append(ps, str(x))
		}
		return strings.Join(ps, str(a[0]))
	case "strings.Length":
		return int64(len(str(a[0])))
	case "strings.AppendTail":
		return str(a[1]) + str(a[0])
	case "strings.AppendHead":
		return str(a[0]) + str(a[1])
	case "strings.HasSuffix":
		return strings.HasSuffix(str(a[1]), str(a[0]))
	case "strings.TrimSuffix":
		return strings.TrimSuffix(str(a[1]), str(a[0]))
	case "strings.HasPrefix":
		return strings.HasPrefix(str(a[1]), str(a[0]))
	case "strings.EncloseWith":
		return str(a[0]) + str(a[2]) + str(a[1])
	case "strings.Split":
		var out []Value
		for _, p := range strings.Split(str(a[1]), str(a[0])) {
			out = append(out, p)
		}
		return sl(out)
	case "strings.IsEmpty":
		return str(a[0]) == ""
	case "strings.IsNotEmpty":
		return str(a[0]) != ""
	case "buf.New":
		return &BufV{}
	case "buf.Write":
		a[0].(*BufV).sb.WriteString(str(a[1]))
		return UnitV{}
	case "buf.String":
		return a[0].(*BufV).sb.String()
	case "dict.New":
		return &DictV{m: map[string][2]Value{}}
	case "dict.ToDict":
		d := &DictV{m: map[string][2]Value{}}
		for _, kv := range elems(a[0]) {
			t := kv.(*TupleV)
			d.set(t.E[0], t.E[1])
		}
		return d
	case "dict.Add":
		a[0].(*DictV).set(a[1], a[2])
		return UnitV{}
	case "dict.ContainsKey":
		_, ok := a[0].(*DictV).m[dictKey(a[1])]
		return ok
	case "dict.TryFind":
		if kv, ok := a[0].(*DictV).m[dictKey(a[1])]; ok {
			return &TupleV{E: []Value{kv[1], true}}
		}
		if b.ResT == nil || b.ResT.K != "tuple" {
			fail("dict.TryFind: result type unknown")
		}
		return &TupleV{E: []Value{zeroOf(b.ResT.E[0], ev), false}}
	case "dict.Item":
		if kv, ok := a[0].(*DictV).m[dictKey(a[1])]; ok {
			return kv[1]
		}
		return zeroOf(b.ResT, ev) // a missing key gives Go's zero value
	case "dict.Keys", "dict.Values", "dict.KVs":
		d := a[0].(*DictV)
		var out []Value
		for _, id := range d.order {
			kv := d.m[id]
			switch name {
			case "dict.Keys":
				out = append(out, kv[0])
			case "dict.Values":
				out = append(out, kv[1])
			default:
				out = append(out, &TupleV{E: []Value{kv[0], kv[1]}})
			}
		}
		return sl(out)
	}
	fail("builtin %s not modelled", name)
	return nil
}

func nonEmpty(v Value, fn string) []Value {
	s := elems(v)
	if len(s) == 0 {
		fail("%s on an empty slice", fn)
	}
	return s
}

func lessValue(a, b Value) bool {
	switch x := a.(type) {
	case int64:
		return x < num(b)
	case string:
		return x < str(b)
	}
	fail("ordering on %T", a)
	return false
}
