package lang

import "testing"

// a closure made before a destructuring let that reuses an outer name keeps seeing the outer variable
func TestDestructuringLetOpensFrame(t *testing.T) {
	S := TString
	loc := &FuncDecl{Name: "loc", Ret: S, Body: Blk(Var("tv", S))}
	body := &Block{
		Stmts: []*Stmt{
			{K: "letf", F: loc},
			{K: "letd", Names: []string{"tv", "d"}, E: &Expr{K: "tuple", T: TTuple(S, S), Args: []*Expr{Str("new"), Var("tv", S)}}},
			ExprStmt(Call("frt.Println", TUnit, Call("loc", S, Unit()))),
			ExprStmt(Call("frt.Println", TUnit, Var("tv", S))),
			ExprStmt(Call("frt.Println", TUnit, Var("d", S))),
		},
		Final: Unit(),
	}
	pr := &Program{Items: []*TopItem{
		{Var: Let("tv", Str("global"))},
		{Func: &FuncDecl{Name: "main", Ret: TUnit, Body: body}},
	}}
	out, err := Run(pr)
	if err != nil {
		t.Fatal(err)
	}
	if out != "global\nnew\nglobal\n" {
		t.Fatalf("got %q", out)
	}
}
