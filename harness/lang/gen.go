package lang

import (
	"fmt"
	"sort"
	"strings"

	"pgregory.net/rapid"
)

// Profile switches productions on and off.
type Profile struct {
	Name          string
	Probes        bool // effect probes (trace) in sub-expressions
	Lambdas       bool
	LocalFuncs    bool
	StringMatch   bool
	Interp        bool // string interpolation / raw strings
	MulDiv        bool
	Tuple3        bool
	Generics      bool // generic helper functions and generic unions
	Buf           bool // buf.Buffer episodes
	Dict          bool // dict.Dict episodes
	ReturnedFns   bool // prelude functions that return functions (mkAdd, mkShow) and their uses
	RecursiveTys  bool
	LowerFields   bool // records with lower-case field names (values of such records are never printed with %v)
	Equality      bool // boost = / <> on composite values
	MaxUnits      int
	MaxDepth      int
	AnnotateAll   bool // every top-level parameter annotated
	SharedFields  bool // some records share their field-name set (ambiguous unqualified literals)
	ManyDecls     bool // at least 3 records and 2 unions
	Tinyfo        bool // the early-Folang subset: typed probes, no empty slices, no %v of unions, parenthesised slice-literal arguments
	NoInlineIf    bool // no one-line if as a value
	NoFieldFn     bool // no _.Field shorthand
	InlineRhsOnly bool // tinyfo: a let's right-hand side must start on the let line
	NoElif        bool
	NoShadow      bool // no let that reuses the name of an outer variable
	FnPayloads    bool // a union some of whose cases carry a function (matched, the payload applied in the arm)
	MatchArgs     bool // a match written as an argument of a call / of a partial application used as a pipe stage
}

var Full = Profile{Name: "full", Probes: true, Lambdas: true, LocalFuncs: true, StringMatch: true, Interp: true, MulDiv: true, Tuple3: true,
	Generics: true, Buf: true, Dict: true, ReturnedFns: true, FnPayloads: true, MatchArgs: true, RecursiveTys: true, MaxUnits: 8, MaxDepth: 4, AnnotateAll: true}

// FuncSig is a callable known to the generator.
type FuncSig struct {
	Name    string
	Params  []*Type // empty = unit parameter
	Ret     *Type
	TParams []string
	Effect  bool   // may print
	Label   string // item label (for reference tracking)
}

func (f *FuncSig) arity() int {
	if len(f.Params) == 0 {
		return 1
	}
	return len(f.Params)
}

type varInfo struct {
	name     string
	t        *Type
	used     int
	knownLen int // for slices: statically known length, -1 unknown
	isFunc   bool
}

type scope struct {
	vars   []*varInfo
	parent *scope
	params bool // holds parameters / a case variable: same Go scope as the block that is its body
}

func (s *scope) child() *scope { return &scope{parent: s} }

func (s *scope) add(name string, t *Type) *varInfo {
	v := &varInfo{name: name, t: t, knownLen: -1}
	s.vars = append(s.vars, v)
	return v
}

func (s *scope) all() []*varInfo {
	var out []*varInfo
	seen := map[string]bool{}
	for c := s; c != nil; c = c.parent {
		for i := len(c.vars) - 1; i >= 0; i-- {
			v := c.vars[i]
			if !seen[v.name] {
				seen[v.name] = true
				out = append(out, v)
			}
		}
	}
	return out
}

func (s *scope) ofType(t *Type) []*varInfo {
	var out []*varInfo
	for _, v := range s.all() {
		if v.t.Equal(t) {
			out = append(out, v)
		}
	}
	return out
}

// Gen is the program generator. Every random choice goes through rapid.
type Gen struct {
	T         *rapid.T
	P         Profile
	Recs      []*RecDecl
	Unions    []*UnionDecl
	Funcs     []*FuncSig // user functions defined so far (callable from later code)
	Labels    map[string]bool
	Steered   map[string]int
	nameCtr   int
	probeCtr  int
	curRefs   map[string]bool // labels referenced by the item under construction
	pure      int             // >0: no effects may be generated
	fieldFnOK int             // >0: a `_.Field` shorthand may be produced (argument of slice.Map / slice.Filter)
	globals   []*varInfo      // top-level variables defined so far
	inRhs     int             // >0: inside the right-hand side of a let (no local function definitions there)
	fuel      int             // expression nodes left for the top-level function under construction
	tvUsed int // probes emitted in the current top-level definition
	typeLabel map[string]string
}

func NewGen(t *rapid.T, p Profile) *Gen {
	return &Gen{T: t, P: p, Labels: map[string]bool{}, Steered: map[string]int{}, curRefs: map[string]bool{}, typeLabel: map[string]string{}}
}

func (g *Gen) intn(n int, label string) int {
	if n <= 1 {
		return 0
	}
	return rapid.IntRange(0, n-1).Draw(g.T, label)
}

func (g *Gen) chance(num, den int, label string) bool { return g.intn(den, label) < num }

func (g *Gen) fresh(prefix string) string {
	g.nameCtr++
	return fmt.Sprintf("%s%d", prefix, g.nameCtr)
}

func (g *Gen) label(l string) { g.Labels[l] = true }

func (g *Gen) refType(t *Type) {
	if t == nil {
		return
	}
	if t.K == "rec" || t.K == "union" {
		if l, ok := g.typeLabel[t.Name]; ok {
			g.curRefs[l] = true
		}
	}
	for _, e := range t.E {
		g.refType(e)
	}
}

func (g *Gen) rec(name string) *RecDecl {
	for _, r := range g.Recs {
		if r.Name == name {
			return r
		}
	}
	return nil
}

func (g *Gen) union(name string) *UnionDecl {
	for _, u := range g.Unions {
		if u.Name == name {
			return u
		}
	}
	return nil
}

// --- type declarations ---------------------------------------------------------------------

var strPool = []string{"", "a", "b", "ab", "xyz", "hello", "A b", "q", "zz", "rect", "circle", "t\tb", "q\"q", "b\\s", "l\nm", "50%", "%d"}

// fieldTypePool: types usable for fields / payloads given what is declared so far.
func (g *Gen) dataTypes(depth int) []*Type {
	ts := []*Type{TInt, TString, TBool, TInt, TString, TSlice(TInt), TSlice(TString), TTuple(TInt, TString)}
	for _, r := range g.Recs {
		if len(r.TParams) == 0 {
			ts = append(ts, TRec(r.Name))
			if depth > 0 {
				ts = append(ts, TSlice(TRec(r.Name)))
			}
		}
	}
	for _, u := range g.Unions {
		if u.carriesFunc() {
			continue // only ever a match target: never compared, printed, stored in other data
		}
		if len(u.TParams) == 0 {
			ts = append(ts, TUnion(u.Name))
			if depth > 0 {
				ts = append(ts, TSlice(TUnion(u.Name)))
			}
		} else if len(u.TParams) == 1 {
			// instantiations of a generic union
			ts = append(ts, TUnion(u.Name, TInt), TUnion(u.Name, TString))
		}
	}
	return ts
}

func (g *Gen) pickDataType(label string) *Type {
	ts := g.dataTypes(1)
	return ts[g.intn(len(ts), label)]
}

// genTypeDecls creates the shared type declarations of a program.
func (g *Gen) genTypeDecls() []*TopItem {
	var items []*TopItem
	n := 2 + g.intn(3, "ntypes")
	if g.P.ManyDecls {
		n = 5 + g.intn(3, "ntypesMany")
	}
	for i := 0; i < n; i++ {
		label := g.fresh("type")
		g.curRefs = map[string]bool{}
		var d *TypeDecl
		var twinItem *TopItem
		isRec := g.chance(1, 2, "isRecord")
		if g.P.ManyDecls && i < 5 {
			isRec = i%2 == 0 // records at 0, 2, 4; unions at 1, 3
		}
		if isRec {
			r := &RecDecl{Name: g.fresh("Rec")}
			nf := 1 + g.intn(3, "nfields")
			lower := g.P.LowerFields && g.chance(1, 2, "lowerFields")
			for j := 0; j < nf; j++ {
				fname := fmt.Sprintf("F%s%c", strings.TrimPrefix(r.Name, "Rec"), 'a'+j)
				if lower {
					fname = strings.ToLower(fname[:1]) + fname[1:]
				}
				ft := g.pickDataType("fieldType")
				g.refType(ft)
				r.Fields = append(r.Fields, Field{fname, ft})
			}
			if g.P.RecursiveTys && g.chance(1, 6, "recursiveRecord") {
				r.Fields = append(r.Fields, Field{fmt.Sprintf("F%sk", strings.TrimPrefix(r.Name, "Rec")), TSlice(TRec(r.Name))})
				g.label("type: self-referential record")
			}
			d = &TypeDecl{Rec: r}
			g.Recs = append(g.Recs, r)
			g.typeLabel[r.Name] = label
			if g.P.SharedFields && g.chance(1, 2, "twinRecord") {
				// a second record with exactly the same field names and types
				twin := &RecDecl{Name: g.fresh("Rec"), Fields: append([]Field{}, r.Fields...)}
				if g.chance(1, 2, "twinSortsFirst") {
					// a name that sorts before the original's (the choice among candidates is by name)
					twin.Name = "Pre" + strings.TrimPrefix(twin.Name, "Rec")
				}
				tl := g.fresh("type")
				twinItem = &TopItem{Types: []*TypeDecl{{Rec: twin}}, Label: tl, Refs: keys(g.curRefs)}
				g.typeLabel[twin.Name] = tl
				g.label("type: two records with the same field names")
			}
		} else {
			u := &UnionDecl{Name: g.fresh("Uni")}
			nc := 2 + g.intn(3, "ncases")
			for j := 0; j < nc; j++ {
				cname := fmt.Sprintf("K%s%c", strings.TrimPrefix(u.Name, "Uni"), 'a'+j)
				c := UCase{Name: cname}
				if g.chance(2, 3, "hasPayload") {
					c.Payload = g.pickDataType("payloadType")
					g.refType(c.Payload)
				}
				u.Cases = append(u.Cases, c)
			}
			if g.P.RecursiveTys && g.chance(1, 5, "recursiveUnion") {
				u.Cases = append(u.Cases, UCase{Name: fmt.Sprintf("K%sr", strings.TrimPrefix(u.Name, "Uni")), Payload: TSlice(TUnion(u.Name))})
				g.label("type: self-referential union")
			}
			d = &TypeDecl{Union: u}
			g.Unions = append(g.Unions, u)
			g.typeLabel[u.Name] = label
		}
		items = append(items, &TopItem{Types: []*TypeDecl{d}, Label: label, Refs: keys(g.curRefs)})
		if twinItem != nil {
			items = append(items, twinItem) // after the original: its fields may mention the original
		}
	}
	if g.P.FnPayloads && g.P.Lambdas && g.chance(1, 2, "fnPayloadUnion") {
		// type OpN = | KopNa of int->int | KopNb of int | KopNc of string->int->string ...
		label := g.fresh("type")
		n := strings.TrimPrefix(label, "type")
		fts := []*Type{TFunc([]*Type{TInt}, TInt), TFunc([]*Type{TInt}, TString), TFunc([]*Type{TString}, TInt),
			TFunc([]*Type{TInt, TInt}, TInt), TFunc([]*Type{TString, TInt}, TString), TFunc([]*Type{TInt}, TBool)}
		u := &UnionDecl{Name: "Op" + n}
		nc := 2 + g.intn(3, "nFnCases")
		for j := 0; j < nc; j++ {
			c := UCase{Name: fmt.Sprintf("Kop%s%c", n, 'a'+j)}
			if j == 0 || g.chance(2, 3, "caseCarriesFn") {
				c.Payload = fts[g.intn(len(fts), "fnPayloadType")]
			} else if g.chance(1, 2, "plainPayload") {
				c.Payload = []*Type{TInt, TString}[g.intn(2, "plainPayloadType")]
			}
			u.Cases = append(u.Cases, c)
		}
		g.Unions = append(g.Unions, u)
		g.typeLabel[u.Name] = label
		g.label("type: union whose cases carry functions")
		items = append(items, &TopItem{Types: []*TypeDecl{{Union: u}}, Label: label})
	}
	if g.P.Generics && g.chance(1, 2, "genericUnion") {
		// type OptN<T> = | SomeN of T | NoneN
		label := g.fresh("type")
		n := strings.TrimPrefix(label, "type")
		u := &UnionDecl{Name: "Opt" + n, TParams: []string{"T"}, Cases: []UCase{{Name: "Some" + n, Payload: TVar("T")}, {Name: "None" + n}}}
		g.Unions = append(g.Unions, u)
		g.typeLabel[u.Name] = label
		g.label("type: generic union")
		items = append(items, &TopItem{Types: []*TypeDecl{{Union: u}}, Label: label})
	}
	return items
}

func keys(m map[string]bool) []string {
	var out []string
	for k := range m {
		out = append(out, k)
	}
	sort.Strings(out)
	return out
}

// --- expressions ------------------------------------------------------------------------------

func (g *Gen) useVar(v *varInfo) *Expr {
	v.used++
	return Var(v.name, v.t)
}

// literal of type t (always possible for the data types the generator uses).
func (g *Gen) literal(sc *scope, t *Type, depth int) *Expr {
	switch t.K {
	case "int":
		if g.P.Probes && g.pure == 0 && !g.probeBudgetSpent() && g.chance(1, 16, "bigIntLit") {
			// the widths at which an implementation might switch representation. Always handed through the
			// probe function: Go folds an expression of literals as an untyped constant and rejects it when
			// the result leaves int64 ("constant overflows"), a rule of Go's constant arithmetic that a value
			// coming out of a call is not subject to (at run time both sides wrap around alike)
			g.label("large int literal")
			return g.probe(Int([]int64{255, 256, 65536, 2147483647, 2147483648, 4294967296, 9007199254740993}[g.intn(7, "bigInt")]))
		}
		return Int(int64(g.intn(12, "intLit")))
	case "string":
		s := strPool[g.intn(len(strPool), "strLit")]
		e := Str(s)
		if g.P.Interp && !strings.Contains(s, "`") && g.chance(1, 8, "rawForm") {
			e.StrForm = "raw"
			g.label("raw string literal")
		}
		return e
	case "bool":
		return Bool(g.chance(1, 2, "boolLit"))
	case "unit":
		return Unit()
	case "tuple":
		e := &Expr{K: "tuple", T: t}
		for _, et := range t.E {
			e.Args = append(e.Args, g.expr(sc, et, depth-1))
		}
		return e
	case "slice":
		n := g.intn(4, "sliceLen")
		if depth <= 0 && n > 2 {
			n = 2
		}
		if n == 0 && g.P.Tinyfo {
			n = 1
		}
		if n == 0 {
			g.label("empty slice via slice.New")
			return &Expr{K: "call", Name: "slice.New", TArgs: []*Type{t.Elem()}, Args: []*Expr{Unit()}, T: t}
		}
		e := &Expr{K: "slice", T: t}
		for i := 0; i < n; i++ {
			e.Args = append(e.Args, g.expr(sc, t.Elem(), depth-1))
		}
		return e
	case "rec":
		r := g.rec(t.Name)
		g.refType(t)
		e := &Expr{K: "reclit", Name: r.Name, T: t}
		order := rapid.Permutation(seq(len(r.Fields))).Draw(g.T, "fieldOrder")
		for _, i := range order {
			f := r.Fields[i]
			ft := f.T.Subst(tparamMap(r.TParams, t.E))
			var fe *Expr
			if ft.K == "slice" && ft.Elem().Equal(t) {
				// the self-referential field: mostly empty to keep values small
				if depth > 0 && g.chance(1, 3, "recurseRec") {
					fe = &Expr{K: "slice", T: ft, Args: []*Expr{g.literal(sc, t, 0)}}
				} else {
					fe = &Expr{K: "call", Name: "slice.New", TArgs: []*Type{ft.Elem()}, Args: []*Expr{Unit()}, T: ft}
				}
			} else {
				fe = g.expr(sc, ft, depth-1)
			}
			e.Fields = append(e.Fields, FieldInit{f.Name, fe})
		}
		if !isSorted(order) {
			g.label("record literal with permuted fields")
		}
		if g.chance(1, 5, "qualifiedRec") {
			e.Qualified = true
			g.label("qualified record literal")
		}
		return e
	case "union":
		u := g.union(t.Name)
		g.refType(t)
		// choose a case; avoid the recursive case at depth 0
		var cands []UCase
		for _, c := range u.Cases {
			if c.Payload != nil && c.Payload.K == "slice" && c.Payload.Elem().Equal(t) && depth <= 0 {
				continue
			}
			cands = append(cands, c)
		}
		c := cands[g.intn(len(cands), "ctorCase")]
		if c.Payload == nil {
			if len(u.TParams) > 0 {
				// a case without payload of a generic union is a function: None<int> ()
				g.label("generic union case without payload")
				return &Expr{K: "call", Name: c.Name, TArgs: t.E, Args: []*Expr{Unit()}, T: t}
			}
			return Var(c.Name, t)
		}
		pt := c.Payload.Subst(tparamMap(u.TParams, t.E))
		var arg *Expr
		if pt.K == "slice" && pt.Elem().Equal(t) {
			n := g.intn(3, "recUnionLen")
			if n == 0 {
				arg = &Expr{K: "call", Name: "slice.New", TArgs: []*Type{t}, Args: []*Expr{Unit()}, T: pt}
			} else {
				arg = &Expr{K: "slice", T: pt}
				for i := 0; i < n; i++ {
					arg.Args = append(arg.Args, g.literal(sc, t, depth-1))
				}
			}
		} else {
			arg = g.expr(sc, pt, depth-1)
		}
		return Call(c.Name, t, arg)
	case "func":
		return g.funcValue(sc, t, depth)
	}
	panic("literal: unsupported type " + t.String())
}

func seq(n int) []int {
	out := make([]int, n)
	for i := range out {
		out[i] = i
	}
	return out
}

func isSorted(a []int) bool {
	for i := 1; i < len(a); i++ {
		if a[i] < a[i-1] {
			return false
		}
	}
	return true
}

// MaxProbesPerFunc and TVarCostLimit keep one top-level definition below fc's capacity of 100 type
// variables per top-level definition ("Too many type var alloc."): every reference to a generic function
// (the probe function included) takes one per type parameter. Probes stop at MaxProbesPerFunc and once
// the expression fuel is spent; a body whose estimated cost still exceeds TVarCostLimit is generated again,
// smaller (genFunc).
const (
	MaxProbesPerFunc = 40
	TVarCostLimit    = 75
)

func (g *Gen) probeBudgetSpent() bool { return g.fuel <= 0 || g.tvUsed >= MaxProbesPerFunc }

// TVarCost estimates from above how many type variables fc allocates for a body.
func (g *Gen) TVarCost(b *Block) int {
	n := 0
	b.Walk(func(e *Expr) {
		switch e.K {
		case "call", "var":
			switch {
			case e.Name == "slice.New" && len(e.TArgs) > 0:
			case strings.HasPrefix(e.Name, "trace"), e.Name == "idd":
				n++
			case e.Name == "konst", e.Name == "applyTo", e.Name == "pair":
				n += 2
			case strings.HasPrefix(e.Name, "slice."), strings.HasPrefix(e.Name, "dict."), strings.HasPrefix(e.Name, "frt."):
				n += 2
			default:
				for _, u := range g.Unions {
					if len(u.TParams) > 0 {
						for _, c := range u.Cases {
							if c.Name == e.Name {
								n += len(u.TParams)
							}
						}
					}
				}
				for _, f := range g.Funcs {
					if f.Name == e.Name {
						n += len(f.TParams)
					}
				}
			}
		case "lambda":
			for _, p := range e.Params {
				if !p.Annot {
					n++
				}
			}
		case "pipe":
			n += 2
		case "if", "matchu", "matchs", "fieldfn":
			n++
		}
	})
	return n
}

// probe wraps e in an effect probe: (trace "tN" e).
func (g *Gen) probe(e *Expr) *Expr {
	if !g.P.Probes || g.pure > 0 || !e.T.FirstOrder() || e.T.K == "unit" {
		return e
	}
	if g.probeBudgetSpent() {
		return e
	}
	g.tvUsed++
	name := "trace"
	if g.P.Tinyfo {
		switch e.T.K {
		case "int":
			name = "traceI"
		case "string":
			name = "traceS"
		case "bool":
			name = "traceB"
		default:
			return e
		}
	}
	g.probeCtr++
	g.curRefs["prelude:"+name] = true
	g.label("effect probe")
	return Call(name, e.T, Str(fmt.Sprintf("t%d", g.probeCtr)), e)
}

func (g *Gen) maybeProbe(e *Expr, num, den int) *Expr {
	if g.P.Probes && g.pure == 0 && g.chance(num, den, "probe") {
		return g.probe(e)
	}
	return e
}

// expr generates an inline-able expression of type t.
func (g *Gen) expr(sc *scope, t *Type, depth int) *Expr {
	e := g.expr0(sc, t, depth)
	if t.FirstOrder() && t.K != "unit" {
		e = g.maybeProbe(e, 1, 5)
	}
	return e
}

func (g *Gen) expr0(sc *scope, t *Type, depth int) *Expr {
	g.refType(t)
	g.fuel--
	if g.fuel <= 0 {
		depth = 0
	}
	if t.K == "func" {
		return g.funcValue(sc, t, depth)
	}
	if t.K == "unit" {
		// unit values only arise as effects; they are never piped, stored or passed to generics
		if g.pure > 0 {
			return Unit()
		}
		return g.unitExpr(sc, max(depth-1, 0))
	}
	vars := sc.ofType(t)
	if depth <= 0 {
		if len(vars) > 0 && g.chance(2, 3, "leafVar") {
			return g.useVar(vars[g.intn(len(vars), "whichVar")])
		}
		return g.literal(sc, t, 0)
	}
	// weighted choice among productions able to yield t
	type prod struct {
		w int
		f func() *Expr
	}
	var ps []prod
	add := func(w int, f func() *Expr) { ps = append(ps, prod{w, f}) }
	add(2, func() *Expr { return g.literal(sc, t, depth) })
	if len(vars) > 0 {
		add(4, func() *Expr { return g.useVar(vars[g.intn(len(vars), "whichVar")]) })
	}
	// field access on a record variable
	for _, v := range sc.all() {
		if v.t.K == "rec" {
			r := g.rec(v.t.Name)
			for _, f := range r.Fields {
				ft := r.FieldType(v.t, f.Name)
				if ft.Equal(t) {
					v, f := v, f
					add(3, func() *Expr {
						g.label("field access")
						return &Expr{K: "field", Name: f.Name, Args: []*Expr{g.useVar(v)}, T: t}
					})
				}
				if ft.K == "rec" && len(ft.E) == 0 {
					// a chain v.F.G through a record-typed field
					for _, f2 := range g.rec(ft.Name).Fields {
						if f2.T.Equal(t) {
							v, f, f2, ft := v, f, f2, ft
							add(9, func() *Expr {
								g.label("field access chain a.B.C")
								inner := &Expr{K: "field", Name: f.Name, Args: []*Expr{g.useVar(v)}, T: ft}
								return &Expr{K: "field", Name: f2.Name, Args: []*Expr{inner}, T: t}
							})
						}
					}
				}
			}
		}
	}
	// calls of user functions returning t
	for _, f := range g.Funcs {
		if len(f.TParams) == 0 && f.Ret.Equal(t) && (!f.Effect || g.pure == 0) {
			f := f
			add(3, func() *Expr { return g.callUser(sc, f, nil, depth) })
		}
	}
	// calls of function-typed variables (parameters, function-valued lets, local functions)
	for _, v := range sc.all() {
		if v.t.K == "func" && v.t.Result().Equal(t) {
			v := v
			add(4, func() *Expr {
				g.label("call of a function-typed variable")
				v.used++
				var args []*Expr
				for _, pt := range v.t.Params() {
					if pt.K == "unit" {
						args = append(args, Unit())
					} else {
						args = append(args, g.expr(sc, pt, depth-1))
					}
				}
				return Call(v.name, t, args...)
			})
		}
	}
	// generic helpers
	if g.P.Generics && t.FirstOrder() {
		add(1, func() *Expr { return g.genericCall(sc, t, depth) })
	}
	// inline if
	if !g.P.NoInlineIf {
		add(2, func() *Expr {
			g.label("if as a value")
			c := g.expr(sc, TBool, depth-1)
			a := g.maybeProbe(g.expr(sc, t, depth-1), 1, 2)
			b := g.maybeProbe(g.expr(sc, t, depth-1), 1, 2)
			return &Expr{K: "if", Args: []*Expr{c}, Then: Blk(a), Else: Blk(b), T: t}
		})
	}
	// pipe
	add(2, func() *Expr { return g.pipeExpr(sc, t, depth) })
	switch t.K {
	case "int":
		add(4, func() *Expr { return g.arith(sc, depth) })
		add(3, func() *Expr { return g.intLib(sc, depth) })
	case "string":
		add(3, func() *Expr {
			return Bin("+", TString, g.expr(sc, TString, depth-1), g.expr(sc, TString, depth-1))
		})
		add(4, func() *Expr { return g.stringLib(sc, depth) })
		if g.P.Interp {
			add(2, func() *Expr { return g.interp(sc) })
		}
	case "bool":
		add(5, func() *Expr { return g.boolExpr(sc, depth) })
	case "slice":
		add(5, func() *Expr { return g.sliceLib(sc, t, depth) })
	case "tuple":
		if len(t.E) == 2 {
			add(1, func() *Expr { return g.tupleLib(sc, t, depth) })
		}
	}
	total := 0
	for _, p := range ps {
		total += p.w
	}
	k := g.intn(total, "production")
	for _, p := range ps {
		if k < p.w {
			return p.f()
		}
		k -= p.w
	}
	return ps[0].f()
}

func (g *Gen) arith(sc *scope, depth int) *Expr {
	ops := []string{"+", "-", "+", "-"}
	if g.P.MulDiv {
		ops = append(ops, "*", "/")
	}
	op := ops[g.intn(len(ops), "arithOp")]
	l := g.expr(sc, TInt, depth-1)
	var r *Expr
	switch {
	case op == "/":
		r = Int(int64(1 + g.intn(5, "divisor"))) // non-zero literal divisor
		g.Steered["division only by non-zero literals"]++
	case op == "*" && g.chance(1, 2, "mulLit"):
		// keep magnitudes small: one side is a small literal
		r = Int(int64(g.intn(4, "mulBy")))
	default:
		r = g.expr(sc, TInt, depth-1)
	}
	return Bin(op, TInt, l, r)
}

func (g *Gen) boolExpr(sc *scope, depth int) *Expr {
	switch g.intn(7, "boolKind") {
	case 0, 1:
		op := []string{"<", ">", "<=", ">="}[g.intn(4, "cmpOp")]
		if g.chance(1, 4, "cmpStrings") {
			return Bin(op, TBool, g.expr(sc, TString, depth-1), g.expr(sc, TString, depth-1))
		}
		return Bin(op, TBool, g.expr(sc, TInt, depth-1), g.expr(sc, TInt, depth-1))
	case 2:
		g.label("short-circuit operator")
		if g.chance(1, 2, "logicChain") {
			// a chain of three or four probed operands joined by a mix of && and ||, grouped to the left
			// (no parentheses needed: Folang gives both operators one rank) or to the right (parenthesised):
			// which operands run, and in which order, is visible in the trace
			g.label("mixed && / || chain with probed operands")
			n := 3 + g.intn(2, "chainLen")
			atom := func() *Expr {
				var a *Expr
				switch g.intn(3, "chainAtom") {
				case 0:
					a = Bool(g.chance(1, 2, "chainLit"))
				case 1:
					a = Bin([]string{"<", ">"}[g.intn(2, "chainCmp")], TBool, g.expr(sc, TInt, 0), g.expr(sc, TInt, 0))
				default:
					a = g.expr(sc, TBool, 0)
				}
				return g.probe(a)
			}
			ops := func() string { return []string{"&&", "||"}[g.intn(2, "chainOp")] }
			if g.chance(2, 3, "chainLeft") {
				e := atom()
				for i := 1; i < n; i++ {
					e = Bin(ops(), TBool, e, atom())
				}
				return e
			}
			e := atom()
			for i := 1; i < n; i++ {
				e = Bin(ops(), TBool, atom(), e)
			}
			return e
		}
		op := []string{"&&", "||"}[g.intn(2, "logicOp")]
		l := g.maybeProbe(g.expr(sc, TBool, depth-1), 1, 2)
		r := g.maybeProbe(g.expr(sc, TBool, depth-1), 2, 3)
		return Bin(op, TBool, l, r)
	case 3:
		return &Expr{K: "not", Args: []*Expr{g.expr(sc, TBool, depth-1)}, T: TBool}
	case 4:
		op := []string{"=", "<>"}[g.intn(2, "eqOp")]
		var et *Type
		if g.P.Equality || g.chance(1, 3, "eqComposite") {
			et = g.pickDataType("eqType")
			if !et.FirstOrder() {
				et = TInt
			}
			if et.K != "int" && et.K != "string" && et.K != "bool" {
				g.label("equality on a composite value")
			}
		} else {
			et = []*Type{TInt, TString, TBool}[g.intn(3, "eqBase")]
		}
		if g.chance(1, 3, "eqSameValue") {
			// the same value on both sides (equal contents are the interesting case for structural equality)
			g.label("equality of a value with itself")
			if vs := sc.ofType(et); len(vs) > 0 {
				v := vs[g.intn(len(vs), "eqVar")]
				return Bin(op, TBool, g.useVar(v), g.useVar(v))
			}
			g.pure++
			same := g.expr(sc, et, depth-1)
			g.pure--
			return Bin(op, TBool, same, same)
		}
		return Bin(op, TBool, g.expr(sc, et, depth-1), g.expr(sc, et, depth-1))
	case 5:
		switch g.intn(4, "boolLib") {
		case 0:
			return Call("strings.HasPrefix", TBool, g.expr(sc, TString, depth-1), g.expr(sc, TString, depth-1))
		case 1:
			return Call("strings.HasSuffix", TBool, g.expr(sc, TString, depth-1), g.expr(sc, TString, depth-1))
		case 2:
			et := []*Type{TInt, TString}[g.intn(2, "emptyElem")]
			return Call([]string{"slice.IsEmpty", "slice.IsNotEmpty"}[g.intn(2, "emptyFn")], TBool, g.expr(sc, TSlice(et), depth-1))
		default:
			return Call([]string{"strings.IsEmpty", "strings.IsNotEmpty"}[g.intn(2, "sEmptyFn")], TBool, g.expr(sc, TString, depth-1))
		}
	default:
		if g.P.Lambdas {
			et := TInt
			fn := []string{"slice.Forall", "slice.Forany"}[g.intn(2, "quantFn")]
			pred := g.lambda(sc, []*Type{et}, TBool, depth-1, false)
			return Call(fn, TBool, pred, g.expr(sc, TSlice(et), depth-1))
		}
		return Bool(true)
	}
}

func (g *Gen) intLib(sc *scope, depth int) *Expr {
	if g.P.ReturnedFns && g.chance(1, 8, "returnedFn") {
		// a function returned by a fully applied call, used as a pipe stage or applied at once
		g.label("function returned by a call used as a pipe stage")
		g.curRefs["prelude:mkAdd"] = true
		stage := Call("mkAdd", TFunc([]*Type{TInt}, TInt), Int(int64(g.intn(9, "mkAddK"))))
		return &Expr{K: "pipe", T: TInt, Args: []*Expr{g.expr(sc, TInt, depth-1), stage}}
	}
	switch g.intn(6, "intLib") {
	case 0:
		return Call("strings.Length", TInt, g.expr(sc, TString, depth-1))
	case 1:
		et := g.pickDataType("lenElem")
		return Call([]string{"slice.Length", "slice.Len"}[g.intn(2, "lenFn")], TInt, g.expr(sc, TSlice(et), depth-1))
	case 2:
		if g.P.Lambdas {
			g.label("slice.Fold with a lambda")
			f := g.lambda(sc, []*Type{TInt, TInt}, TInt, depth-1, false)
			return Call("slice.Fold", TInt, f, g.expr(sc, TInt, depth-1), g.expr(sc, TSlice(TInt), depth-1))
		}
	case 3:
		tt := TTuple(TInt, TString)
		return Call("frt.Fst", TInt, g.expr(sc, tt, depth-1))
	case 4:
		// Head / Last / Item on a literal of known length
		n := 1 + g.intn(3, "knownLen")
		lit := &Expr{K: "slice", T: TSlice(TInt)}
		for i := 0; i < n; i++ {
			lit.Args = append(lit.Args, g.expr(sc, TInt, depth-1))
		}
		g.Steered["partial slice functions only on values of known length"]++
		switch g.intn(3, "partialFn") {
		case 0:
			return Call("slice.Head", TInt, lit)
		case 1:
			return Call("slice.Last", TInt, lit)
		default:
			return Call("slice.Item", TInt, Int(int64(g.intn(n, "itemIdx"))), lit)
		}
	}
	return g.arith(sc, depth)
}

func (g *Gen) stringLib(sc *scope, depth int) *Expr {
	switch g.intn(8, "stringLib") {
	case 0:
		return Call("frt.Sprintf1", TString, Str([]string{"%d", "n=%d", "<%d>", "%d%%"}[g.intn(4, "fmtD")]), g.expr(sc, TInt, depth-1))
	case 1:
		return Call("frt.Sprintf1", TString, Str([]string{"%s", "[%s]", "%s!", "%s: 100%% done", "%%%s"}[g.intn(5, "fmtS")]), g.expr(sc, TString, depth-1))
	case 2:
		vt := g.pickDataType("fmtVType")
		if !g.printable(vt) {
			vt = TInt
		}
		return Call("frt.Sprintf1", TString, Str([]string{"%v", "(%v)"}[g.intn(2, "fmtV")]), g.expr(sc, vt, depth-1))
	case 3:
		return Call("strings.Concat", TString, g.expr(sc, TString, depth-1), g.expr(sc, TSlice(TString), depth-1))
	case 4:
		fn := []string{"strings.AppendTail", "strings.AppendHead", "strings.TrimSuffix"}[g.intn(3, "strFn2")]
		return Call(fn, TString, g.expr(sc, TString, depth-1), g.expr(sc, TString, depth-1))
	case 5:
		return Call("strings.EncloseWith", TString, g.expr(sc, TString, depth-1), g.expr(sc, TString, depth-1), g.expr(sc, TString, depth-1))
	case 6:
		return Call("frt.Sprintf2", TString, Str("%d:%s"), g.expr(sc, TInt, depth-1), g.expr(sc, TString, depth-1))
	default:
		tt := TTuple(TInt, TString)
		return Call("frt.Snd", TString, g.expr(sc, tt, depth-1))
	}
}

func (g *Gen) interp(sc *scope) *Expr {
	// holes are single variable names of first-order type
	var cands []*varInfo
	for _, v := range sc.all() {
		if v.t.FirstOrder() && v.t.K != "unit" && g.printable(v.t) {
			cands = append(cands, v)
		}
	}
	e := &Expr{K: "interp", T: TString, StrForm: "interp"}
	texts := []string{"", "a", " ", "x=", ", ", "[", "]", "v: "}
	n := 1 + g.intn(3, "interpParts")
	for i := 0; i < n; i++ {
		if tx := texts[g.intn(len(texts), "interpText")]; tx != "" {
			e.Parts = append(e.Parts, InterpPart{Text: tx})
		}
		if len(cands) > 0 {
			v := cands[g.intn(len(cands), "interpVar")]
			v.used++
			e.Parts = append(e.Parts, InterpPart{Var: v.name, VarT: v.t})
		}
	}
	if len(e.Parts) == 0 {
		e.Parts = []InterpPart{{Text: "s"}}
	}
	if g.chance(1, 4, "rawInterp") {
		e.StrForm = "rawinterp"
	}
	g.label("string interpolation")
	return e
}

// printable: %v of the type is modelled (no lower-case-field record inside).
func (g *Gen) printable(t *Type) bool {
	return g.printable0(t, map[string]bool{})
}

func (g *Gen) printable0(t *Type, seen map[string]bool) bool {
	if !t.FirstOrder() {
		return false
	}
	if t.K == "union" && g.P.Tinyfo {
		return false // known finding D13: tinyfo emits no String() for unions
	}
	if t.K == "rec" || t.K == "union" {
		if seen[t.Name] {
			return true
		}
		seen[t.Name] = true
	}
	if t.K == "rec" {
		r := g.rec(t.Name)
		for _, f := range r.Fields {
			if f.Name[0] >= 'a' && f.Name[0] <= 'z' {
				return false
			}
			if !g.printable0(f.T, seen) {
				return false
			}
		}
	}
	if t.K == "union" {
		for _, c := range g.union(t.Name).Cases {
			if c.Payload != nil && !g.printable0(c.Payload, seen) {
				return false
			}
		}
	}
	for _, e := range t.E {
		if !g.printable0(e, seen) {
			return false
		}
	}
	return true
}

func (g *Gen) sliceLib(sc *scope, t *Type, depth int) *Expr {
	et := t.Elem()
	k := g.intn(10, "sliceLib")
	switch {
	case k == 0:
		// Map from another element type
		st := []*Type{TInt, TString, et}[g.intn(3, "mapSrc")]
		g.label("slice.Map with a lambda")
		if g.chance(1, 3, "mapOverRecords") {
			// map over records: lets `_.Field` appear
			for _, r := range g.Recs {
				for _, f := range r.Fields {
					if len(r.TParams) == 0 && f.T.Equal(et) {
						st = TRec(r.Name)
					}
				}
			}
		}
		g.fieldFnOK++
		fv := g.funcValue(sc, TFunc([]*Type{st}, et), depth-1)
		g.fieldFnOK--
		if fv == nil {
			return g.literal(sc, t, depth)
		}
		return Call("slice.Map", t, fv, g.expr(sc, TSlice(st), depth-1))
	case k == 1:
		g.label("slice.Filter with a lambda")
		g.fieldFnOK++
		fv := g.funcValue(sc, TFunc([]*Type{et}, TBool), depth-1)
		g.fieldFnOK--
		if fv == nil {
			return g.literal(sc, t, depth)
		}
		return Call("slice.Filter", t, fv, g.expr(sc, t, depth-1))
	case k == 2:
		return Call("slice.PushLast", t, g.expr(sc, et, depth-1), g.expr(sc, t, depth-1))
	case k == 3:
		return Call("slice.PushHead", t, g.expr(sc, et, depth-1), g.expr(sc, t, depth-1))
	case k == 4:
		return Call("slice.Append", t, g.expr(sc, t, depth-1), g.expr(sc, t, depth-1))
	case k == 5 && (et.K == "int" || et.K == "string"):
		return Call([]string{"slice.Sort", "slice.Distinct"}[g.intn(2, "sortDistinct")], t, g.expr(sc, t, depth-1))
	case k == 6:
		// Take / Skip / Tail / PopLast on a literal of known length
		n := 1 + g.intn(3, "knownLen")
		lit := &Expr{K: "slice", T: t}
		for i := 0; i < n; i++ {
			lit.Args = append(lit.Args, g.expr(sc, et, depth-1))
		}
		g.Steered["partial slice functions only on values of known length"]++
		switch g.intn(4, "partialSliceFn") {
		case 0:
			return Call("slice.Take", t, Int(int64(g.intn(n+1, "takeN"))), lit)
		case 1:
			return Call("slice.Skip", t, Int(int64(g.intn(n+1, "skipN"))), lit)
		case 2:
			return Call("slice.Tail", t, lit)
		default:
			return Call("slice.PopLast", t, lit)
		}
	case k == 7 && et.K == "string":
		return Call("strings.Split", t, Str([]string{",", " ", "b"}[g.intn(3, "splitSep")]), g.expr(sc, TString, depth-1))
	case k == 8 && g.P.Lambdas && depth > 1:
		g.label("slice.Collect with a lambda")
		st := []*Type{TInt, TString}[g.intn(2, "collectSrc")]
		return Call("slice.Collect", t, g.funcValue(sc, TFunc([]*Type{st}, t), depth-1), g.expr(sc, TSlice(st), depth-1))
	case k == 9 && et.K == "tuple" && len(et.E) == 2:
		// Zip two literals of the same length
		n := g.intn(3, "zipLen")
		a := &Expr{K: "slice", T: TSlice(et.E[0])}
		b := &Expr{K: "slice", T: TSlice(et.E[1])}
		for i := 0; i < n; i++ {
			a.Args = append(a.Args, g.expr(sc, et.E[0], depth-1))
			b.Args = append(b.Args, g.expr(sc, et.E[1], depth-1))
		}
		if n == 0 {
			return g.literal(sc, t, depth)
		}
		return Call("slice.Zip", t, a, b)
	}
	return g.literal(sc, t, depth)
}

func (g *Gen) tupleLib(sc *scope, t *Type, depth int) *Expr {
	// TryFind on a slice of ints / strings gives (T, bool)
	if t.E[1].K == "bool" && (t.E[0].K == "int" || t.E[0].K == "string") && g.P.Lambdas {
		g.label("slice.TryFind")
		return Call("slice.TryFind", t, g.lambda(sc, []*Type{t.E[0]}, TBool, depth-1, false), g.expr(sc, TSlice(t.E[0]), depth-1))
	}
	return g.literal(sc, t, depth)
}

// pipeExpr: x |> f  with f : X -> t
func (g *Gen) pipeExpr(sc *scope, t *Type, depth int) *Expr {
	xt := g.pickDataType("pipeSrcType")
	if g.chance(1, 2, "pipeSameType") {
		xt = t
	}
	if !xt.FirstOrder() {
		xt = TInt
	}
	f := g.funcValueOpt(sc, TFunc([]*Type{xt}, t), depth-1, true)
	if f == nil {
		// no function value of that type can be built in this profile
		return g.literal(sc, t, depth-1)
	}
	x := g.expr(sc, xt, depth-1)
	g.label("pipe")
	e := &Expr{K: "pipe", Args: []*Expr{x, f}, T: t}
	if g.chance(1, 3, "pipeChain") && depth > 1 {
		if f2 := g.funcValueOpt(sc, TFunc([]*Type{t}, t), depth-1, true); f2 != nil {
			g.label("pipe chain")
			e = &Expr{K: "pipe", Args: []*Expr{e, f2}, T: t}
		}
	}
	return e
}

// funcValue generates a function-valued expression of type ft.
func (g *Gen) funcValue(sc *scope, ft *Type, depth int) *Expr {
	return g.funcValueOpt(sc, ft, depth, false)
}

// pipeStage: the value is the right operand of |> (supplied arguments may then have effects).
func (g *Gen) funcValueOpt(sc *scope, ft *Type, depth int, pipeStage bool) *Expr {
	params, ret := ft.Params(), ft.Result()
	type prod struct {
		w int
		f func() *Expr
	}
	var ps []prod
	add := func(w int, f func() *Expr) { ps = append(ps, prod{w, f}) }
	// a variable of that function type
	for _, v := range sc.ofType(ft) {
		v := v
		add(4, func() *Expr { return g.useVar(v) })
	}
	// a named user function with exactly these parameters
	for _, f := range g.Funcs {
		if len(f.TParams) == 0 && len(f.Params) == len(params) && len(params) > 0 && f.Ret.Equal(ret) && sameTypes(f.Params, params) && (!f.Effect || g.pure == 0) {
			f := f
			add(3, func() *Expr {
				g.label("named function as a value")
				g.curRefs[f.Label] = true
				return Var(f.Name, ft)
			})
		}
		// partial application of a user function with more parameters
		if len(f.TParams) == 0 && len(f.Params) > len(params) && len(params) > 0 && f.Ret.Equal(ret) &&
			sameTypes(f.Params[len(f.Params)-len(params):], params) && (!f.Effect || g.pure == 0) {
			f := f
			add(4, func() *Expr {
				g.label("partial application of a user function")
				return g.callUser(sc, f, ft, depth, pipeStage, len(f.Params)-len(params))
			})
		}
	}
	// library partial applications
	if len(params) == 1 {
		p := params[0]
		switch {
		case p.K == "int" && ret.K == "string" && !g.P.Tinyfo:
			add(2, func() *Expr {
				g.label("partial application of a library function")
				return Call("frt.Sprintf1", ft, Str([]string{"%d", "#%d"}[g.intn(2, "paFmt")]))
			})
		case p.K == "string" && ret.K == "string":
			add(2, func() *Expr {
				g.label("partial application of a library function")
				fn := []string{"strings.AppendTail", "strings.AppendHead", "strings.TrimSuffix"}[g.intn(3, "paStrFn")]
				return Call(fn, ft, g.suppliedArg(sc, TString, depth, pipeStage))
			})
		case p.K == "string" && ret.K == "bool":
			add(2, func() *Expr {
				g.label("partial application of a library function")
				fn := []string{"strings.HasPrefix", "strings.HasSuffix"}[g.intn(2, "paBoolFn")]
				return Call(fn, ft, g.suppliedArg(sc, TString, depth, pipeStage))
			})
			add(1, func() *Expr { return Var([]string{"strings.IsEmpty", "strings.IsNotEmpty"}[g.intn(2, "sPred")], ft) })
		case p.K == "string" && ret.K == "int":
			add(2, func() *Expr { return Var("strings.Length", ft) })
		case p.K == "slice" && ret.K == "int":
			add(2, func() *Expr { return Var("slice.Length", ft) })
		case p.K == "slice" && ret.K == "slice" && p.Equal(ret):
			add(2, func() *Expr {
				g.label("partial application of a library function")
				fn := []string{"slice.PushLast", "slice.PushHead"}[g.intn(2, "paPushFn")]
				return Call(fn, ft, g.suppliedArg(sc, p.Elem(), depth, pipeStage))
			})
			if g.P.Lambdas {
				add(2, func() *Expr {
					g.label("partial application of a library function")
					return Call("slice.Filter", ft, g.lambda(sc, []*Type{p.Elem()}, TBool, depth-1, true))
				})
			}
		case p.K == "slice" && ret.K == "slice" && g.P.Lambdas:
			add(3, func() *Expr {
				g.label("partial application of a library function")
				g.fieldFnOK++
				defer func() { g.fieldFnOK-- }()
				return Call("slice.Map", ft, g.funcValue(sc, TFunc([]*Type{p.Elem()}, ret.Elem()), depth-1))
			})
		case p.K == "slice" && p.Elem().K == "string" && ret.K == "string":
			add(3, func() *Expr {
				g.label("partial application of a library function")
				return Call("strings.Concat", ft, g.suppliedArg(sc, TString, depth, pipeStage))
			})
		}
		// union constructor as a function
		if ret.K == "union" {
			u := g.union(ret.Name)
			for _, c := range u.Cases {
				if c.Payload != nil && c.Payload.Subst(tparamMap(u.TParams, ret.E)).Equal(p) {
					c := c
					add(3, func() *Expr {
						g.label("constructor as a function value")
						g.refType(ret)
						return Var(c.Name, ft)
					})
				}
			}
		}
		// _.Field: only as the function argument of a slice-package higher-order
		// function (the documented use; elsewhere its type is resolved too late)
		if p.K == "rec" && g.fieldFnOK > 0 && !g.P.NoFieldFn && (ret.K == "int" || ret.K == "string" || ret.K == "bool") {
			r := g.rec(p.Name)
			for _, f := range r.Fields {
				if r.FieldType(p, f.Name).Equal(ret) {
					f := f
					add(3, func() *Expr {
						g.label("_.Field shorthand")
						g.refType(p)
						return &Expr{K: "fieldfn", Name: f.Name, T: ft}
					})
				}
			}
		}
	}
	if g.P.Lambdas {
		w := 3
		if len(ps) == 0 {
			w = 1
		}
		add(w, func() *Expr { return g.lambda(sc, params, ret, depth, ret.K == "unit") })
	}
	if len(ps) == 0 {
		// no lambdas in this profile and nothing else fits
		return nil
	}
	total := 0
	for _, p := range ps {
		total += p.w
	}
	k := g.intn(total, "funcProduction")
	for _, p := range ps {
		if k < p.w {
			return p.f()
		}
		k -= p.w
	}
	return ps[0].f()
}

func sameTypes(a, b []*Type) bool {
	if len(a) != len(b) {
		return false
	}
	for i := range a {
		if !a[i].Equal(b[i]) {
			return false
		}
	}
	return true
}

// suppliedArg: an argument captured by a partial application. Outside a pipe
// stage it must be effect-free (known finding D1: fc re-evaluates it per call),
// so it is an atom: a variable or a literal without probes.
func (g *Gen) suppliedArg(sc *scope, t *Type, depth int, pipeStage bool) *Expr {
	if pipeStage {
		return g.expr(sc, t, depth-1)
	}
	g.Steered["partial-application arguments kept effect-free (known finding D1)"]++
	g.pure++
	defer func() { g.pure-- }()
	vars := sc.ofType(t)
	if len(vars) > 0 && g.chance(2, 3, "suppliedVar") {
		return g.useVar(vars[g.intn(len(vars), "whichVar")])
	}
	return g.literal(sc, t, 0)
}

// lambda builds `fun p… -> body`. Parameters are un-annotated unless forced.
func (g *Gen) lambda(sc *scope, params []*Type, ret *Type, depth int, unitBody bool) *Expr {
	g.label("lambda")
	inner := sc.child()
	inner.params = true
	e := &Expr{K: "lambda", T: TFunc(params, ret)}
	taken := map[string]bool{}
	for _, pt := range params {
		name := g.fresh("x")
		if g.chance(1, 12, "shadowParam") {
			// shadow an outer variable on purpose
			if all := sc.all(); len(all) > 0 {
				cand := all[g.intn(len(all), "shadowWhich")].name
				if !taken[cand] {
					name = cand
					g.label("lambda parameter shadows an outer variable")
				}
			}
		}
		taken[name] = true
		annot := g.chance(1, 5, "annotLambdaParam") || pt.K == "rec" || pt.K == "union" || pt.K == "tuple"
		e.Params = append(e.Params, Param{Name: name, T: pt, Annot: annot})
		inner.add(name, pt)
	}
	// captured variables are simply in scope
	if ret.K == "unit" {
		e.Body = Blk(g.unitExpr(inner, depth-1))
	} else {
		body := g.expr(inner, ret, depth-1)
		e.Body = Blk(body)
	}
	for _, v := range sc.all() {
		_ = v
	}
	return e
}

// callUser builds a (full or partial) call of a user function.
// opt: [pipeStage bool, nSupplied int] for partial application.
func (g *Gen) callUser(sc *scope, f *FuncSig, resT *Type, depth int, opt ...any) *Expr {
	g.curRefs[f.Label] = true
	n := len(f.Params)
	pipeStage := false
	partial := false
	if len(opt) == 2 {
		pipeStage = opt[0].(bool)
		n = opt[1].(int)
		partial = true
	}
	e := &Expr{K: "call", Name: f.Name}
	if len(f.Params) == 0 {
		e.Args = []*Expr{Unit()}
		e.T = f.Ret
		return e
	}
	for i := 0; i < n; i++ {
		if partial {
			e.Args = append(e.Args, g.suppliedArg(sc, f.Params[i], depth, pipeStage))
		} else {
			e.Args = append(e.Args, g.expr(sc, f.Params[i], depth-1))
		}
	}
	if partial {
		e.T = resT
	} else {
		e.T = f.Ret
	}
	return e
}

// genericCall uses one of the generic helpers of the prelude at type t.
func (g *Gen) genericCall(sc *scope, t *Type, depth int) *Expr {
	g.label("generic helper instantiated")
	for _, h := range []string{"idd", "konst", "applyTo", "pair"} {
		g.curRefs["prelude:"+h] = true
	}
	switch g.intn(4, "genericHelper") {
	case 0:
		return Call("idd", t, g.expr(sc, t, depth-1))
	case 1:
		ot := []*Type{TInt, TString, TBool}[g.intn(3, "konstOther")]
		return Call("konst", t, g.expr(sc, t, depth-1), g.expr(sc, ot, depth-1))
	case 2:
		if g.P.Lambdas {
			xt := []*Type{TInt, TString}[g.intn(2, "applyArg")]
			return Call("applyTo", t, g.expr(sc, xt, depth-1), g.funcValue(sc, TFunc([]*Type{xt}, t), depth-1))
		}
		return Call("idd", t, g.expr(sc, t, depth-1))
	default:
		ot := []*Type{TInt, TString}[g.intn(2, "pairOther")]
		return Call("frt.Fst", t, Call("pair", TTuple(t, ot), g.expr(sc, t, depth-1), g.expr(sc, ot, depth-1)))
	}
}

// unitExpr: an inline expression of type unit (an effect).
func (g *Gen) unitExpr(sc *scope, depth int) *Expr {
	if g.P.ReturnedFns && g.chance(1, 8, "returnedUnitFn") {
		g.curRefs["prelude:mkShow"] = true
		stage := Call("mkShow", TFunc([]*Type{TInt}, TUnit), Str([]string{"s", "tag", ""}[g.intn(3, "mkShowTag")]))
		if g.chance(1, 3, "returnedUnitFnIter") {
			g.label("unit function returned by a call handed to slice.Iter")
			return Call("slice.Iter", TUnit, stage, g.expr(sc, TSlice(TInt), depth))
		}
		g.label("unit function returned by a call used as a pipe stage")
		return &Expr{K: "pipe", T: TUnit, Args: []*Expr{g.expr(sc, TInt, depth), stage}}
	}
	switch g.intn(4, "unitKind") {
	case 0:
		return Call("frt.Println", TUnit, g.expr(sc, TString, depth))
	case 1:
		return Call("frt.Printf1", TUnit, Str([]string{"%d\n", "i=%d\n", "%d%%\n"}[g.intn(3, "pfD")]), g.expr(sc, TInt, depth))
	case 2:
		vt := g.pickDataType("printType")
		if !g.printable(vt) {
			vt = TInt
		}
		return Call("frt.Printf1", TUnit, Str("%v\n"), g.expr(sc, vt, depth))
	default:
		g.label("pipe into a unit function")
		return &Expr{K: "pipe", Args: []*Expr{g.expr(sc, TString, depth), Var("frt.Println", TFunc([]*Type{TString}, TUnit))}, T: TUnit}
	}
}

// Tiny is the early-Folang subset tinyfo accepts (property C17).
var Tiny = Profile{Name: "tinyfo", Probes: true, Tinyfo: true, NoInlineIf: true, NoFieldFn: true, InlineRhsOnly: true,
	MaxUnits: 6, MaxDepth: 3, AnnotateAll: true}

// TinyPkgInfo declares, in tinyfo's package_info dialect, every library
// function the tinyfo profile may use (tinyfo cannot read today's pkg_all.foi).
const TinyPkgInfo = `package_info frt =
  let Println: string->()
  let Sprintf1<T>: string->T->string
  let Sprintf2<T, U>: string->T->U->string
  let Printf1<T>: string->T->()
  let Fst<T, U>: T*U->T
  let Snd<T, U>: T*U->U

package_info slice =
  let Length<T>: []T->int
  let Len<T>: []T->int
  let IsEmpty<T>: []T->bool
  let IsNotEmpty<T>: []T->bool
  let Head<T>: []T->T
  let Last<T>: []T->T
  let Item<T>: int->[]T->T
  let Take<T>: int->[]T->[]T
  let Skip<T>: int->[]T->[]T
  let Tail<T>: []T->[]T
  let PopLast<T>: []T->[]T
  let Map<T, U>: (T->U)->[]T->[]U
  let Filter<T>: (T->bool)->[]T->[]T
  let PushLast<T>: T->[]T->[]T
  let PushHead<T>: T->[]T->[]T
  let Append<T>: []T->[]T->[]T
  let Sort<T>: []T->[]T
  let Distinct<T>: []T->[]T
  let Zip<T, U>: []T->[]U->[](T*U)

package_info strings =
  let Concat: string->[]string->string
  let Length: string->int
  let AppendTail: string->string->string
  let AppendHead: string->string->string
  let TrimSuffix: string->string->string
  let EncloseWith: string->string->string->string
  let HasPrefix: string->string->bool
  let HasSuffix: string->string->bool
  let Split: string->string->[]string
  let IsEmpty: string->bool
  let IsNotEmpty: string->bool
`
