package lang

import (
	"fmt"
	"strings"

	"pgregory.net/rapid"
)

// --- statement level ------------------------------------------------------------------------

// stmtValue generates an expression for a statement-level position (block
// final, let right-hand side): it may be a match or a multi-line if. Extra
// statements that must precede it (let-binding a match target) are returned.
func (g *Gen) stmtValue(sc *scope, t *Type, depth int) ([]*Stmt, *Expr) {
	if depth <= 0 || g.fuel <= 0 {
		return nil, g.expr(sc, t, 0)
	}
	switch g.intn(6, "stmtValueKind") {
	case 0:
		return g.matchUnion(sc, t, depth)
	case 1:
		if g.P.StringMatch {
			return g.matchString(sc, t, depth)
		}
	case 2:
		return nil, g.ifBlock(sc, t, depth)
	}
	return nil, g.expr(sc, t, depth)
}

// EndsWithIfOnly: the last statement the printer emits for b is an if without
// else (recursively through the last arm of a final match / the else of a
// final if).
func EndsWithIfOnly(b *Block) bool {
	if b == nil || b.Final == nil {
		return false
	}
	e := b.Final
	switch e.K {
	case "if":
		if e.Else == nil {
			return true
		}
		return EndsWithIfOnly(e.Else)
	case "matchu", "matchs":
		switch {
		case e.Default != nil:
			return EndsWithIfOnly(e.Default)
		case e.VarArm != nil:
			return EndsWithIfOnly(e.VarArm.Body)
		case len(e.Arms) > 0:
			return EndsWithIfOnly(e.Arms[len(e.Arms)-1].Body)
		}
	}
	return false
}

// guardDanglingElse keeps a block that is followed by else/elif from ending
// with an if-only (known finding D15: the inner if captures the outer else).
func (g *Gen) guardDanglingElse(b *Block) {
	if e := b.Final; e != nil && e.K == "if" && e.Else == nil && len(e.Elifs) == 0 && len(e.Then.Stmts) == 0 &&
		CanInline(e.Args[0]) && CanInline(e.Then.Final) && e.Then.Final.K != "if" && g.chance(2, 3, "danglingOneLine") {
		// written on one line the inner if is complete at its line end: the else below belongs to the outer if
		e.OneLine = true
		g.label("one-line if without else ends a block that is followed by else")
		return
	}
	if EndsWithIfOnly(b) {
		g.Steered["then-block followed by else does not end with an if-only (known finding D15)"]++
		b.Stmts = append(b.Stmts, ExprStmt(b.Final))
		b.Final = Call("frt.Println", TUnit, Str("."))
	}
}

func (g *Gen) ifBlock(sc *scope, t *Type, depth int) *Expr {
	g.label("if/else with block branches")
	e := &Expr{K: "if", T: t, Args: []*Expr{g.expr(sc, TBool, depth-1)}}
	e.Then = g.block(sc, t, depth-1)
	if !g.P.NoElif && g.chance(1, 3, "elif") {
		g.label("elif chain")
		n := 1 + g.intn(2, "nelif")
		for i := 0; i < n; i++ {
			e.Elifs = append(e.Elifs, Elif{Cond: g.expr(sc, TBool, depth-1), Body: g.block(sc, t, depth-1)})
		}
	}
	e.Else = g.block(sc, t, depth-1)
	return e
}

// unionTarget finds (or let-binds) a variable of union type to match on.
func (g *Gen) unionTarget(sc *scope, depth int) ([]*Stmt, *varInfo) {
	var cands []*varInfo
	for _, v := range sc.all() {
		if v.t.K == "union" {
			cands = append(cands, v)
		}
	}
	if len(cands) > 0 && g.chance(3, 4, "matchExistingVar") {
		return nil, cands[g.intn(len(cands), "matchVar")]
	}
	var us []*UnionDecl
	for _, u := range g.Unions {
		if len(u.TParams) == 0 {
			us = append(us, u)
		}
	}
	if len(us) == 0 {
		return nil, nil
	}
	u := us[g.intn(len(us), "matchUnion")]
	for _, fu := range us {
		if fu.carriesFunc() && g.chance(1, 2, "matchFnUnion") {
			u = fu
		}
	}
	ut := TUnion(u.Name)
	name := g.fresh("u")
	val := g.expr(sc, ut, depth-1)
	v := sc.add(name, ut)
	g.Steered["match target bound with let / annotated"]++
	return []*Stmt{Let(name, val)}, v
}

func (g *Gen) matchUnion(sc *scope, t *Type, depth int) ([]*Stmt, *Expr) {
	pre, tv := g.unionTarget(sc, depth)
	if tv == nil {
		return nil, g.expr(sc, t, depth)
	}
	g.label("union match")
	u := g.union(tv.t.Name)
	e := &Expr{K: "matchu", T: t, Args: []*Expr{g.useVar(tv)}}
	order := rapid.Permutation(seq(len(u.Cases))).Draw(g.T, "armOrder")
	nArms := len(order)
	if g.chance(1, 3, "matchDefault") && len(order) > 1 {
		nArms = 1 + g.intn(len(order)-1, "nArms")
		g.label("union match with default arm")
	}
	if !isSorted(order[:nArms]) {
		g.label("union match arms out of declaration order")
	}
	for _, ci := range order[:nArms] {
		c := u.Cases[ci]
		arm := &Arm{Case: c.Name}
		inner := sc.child()
		inner.params = true
		var bv *varInfo
		if c.Payload != nil {
			name := g.fresh("m")
			if g.chance(1, 10, "shadowBind") {
				name = tv.name // shadows the matched variable inside the arm
				g.label("match binding shadows an outer variable")
			}
			pt := c.Payload.Subst(tparamMap(u.TParams, tv.t.E))
			bv = inner.add(name, pt)
			arm.Bind = name
		}
		arm.Body = g.armBlock(inner, t, depth-1)
		if bv != nil && bv.t.K == "func" && bv.used == 0 && g.pure == 0 {
			// a function payload the arm did not get round to: apply it once, as a statement
			bv.used++
			var args []*Expr
			for _, pt := range bv.t.Params() {
				args = append(args, g.expr(inner, pt, 0))
			}
			call := Call(bv.name, bv.t.Result(), args...)
			var st *Expr
			switch bv.t.Result().K {
			case "string":
				st = Call("frt.Println", TUnit, call)
			case "int":
				st = Call("frt.Printf1", TUnit, Str("%d\n"), call)
			default:
				st = Call("frt.Printf1", TUnit, Str("%v\n"), call)
			}
			arm.Body.Stmts = append([]*Stmt{ExprStmt(st)}, arm.Body.Stmts...)
		}
		if bv != nil && bv.t.K == "func" && bv.used > 0 {
			g.label("function payload of a union case applied in its arm")
		}
		if bv != nil && bv.used == 0 {
			// unused payload: `_` or no pattern at all
			if g.chance(1, 2, "ignoreForm") {
				arm.Bind = "_"
			} else {
				arm.Bind = ""
			}
		}
		e.Arms = append(e.Arms, arm)
	}
	if nArms < len(order) {
		e.Default = g.armBlock(sc.child(), t, depth-1)
	}
	return pre, e
}

func (g *Gen) armBlock(sc *scope, t *Type, depth int) *Block {
	if depth > 0 && g.chance(1, 3, "armIsBlock") {
		return g.block(sc, t, depth)
	}
	var e *Expr
	if t.K == "unit" {
		e = g.unitExpr(sc, depth)
	} else {
		e = g.expr(sc, t, depth)
		e = g.maybeProbe(e, 1, 2)
	}
	return Blk(e)
}

func (g *Gen) matchString(sc *scope, t *Type, depth int) ([]*Stmt, *Expr) {
	var pre []*Stmt
	var tv *varInfo
	cands := sc.ofType(TString)
	if len(cands) > 0 && g.chance(3, 4, "smatchExistingVar") {
		tv = cands[g.intn(len(cands), "smatchVar")]
	} else {
		name := g.fresh("s")
		pre = append(pre, Let(name, g.expr(sc, TString, depth-1)))
		tv = sc.add(name, TString)
	}
	g.label("string match")
	e := &Expr{K: "matchs", T: t, Args: []*Expr{g.useVar(tv)}}
	n := 1 + g.intn(3, "nStrArms")
	used := map[string]bool{}
	for i := 0; i < n; i++ {
		lit := strPool[g.intn(len(strPool), "armLit")]
		if used[lit] {
			continue
		}
		used[lit] = true
		e.Arms = append(e.Arms, &Arm{Lit: lit, Body: g.armBlock(sc.child(), t, depth-1)})
	}
	inner := sc.child()
	inner.params = true
	name := g.fresh("o")
	bv := inner.add(name, TString)
	body := g.armBlock(inner, t, depth-1)
	if bv.used > 0 {
		e.VarArm = &Arm{Bind: name, Body: body}
		g.label("string match with variable arm")
	} else {
		e.Default = body
	}
	return pre, e
}

// unitStmt: a statement executed for its effect.
func (g *Gen) unitStmts(sc *scope, depth int) []*Stmt {
	switch g.intn(7, "unitStmtKind") {
	case 0:
		if depth > 0 {
			g.label("if-only statement")
			e := &Expr{K: "if", T: TUnit, Args: []*Expr{g.expr(sc, TBool, depth-1)}}
			e.Then = g.unitBlock(sc, depth-1)
			return []*Stmt{ExprStmt(e)}
		}
	case 1:
		if g.P.Lambdas && depth > 0 {
			g.label("slice.Iter with a lambda")
			et := []*Type{TInt, TString}[g.intn(2, "iterElem")]
			f := g.lambda(sc, []*Type{et}, TUnit, depth-1, true)
			return []*Stmt{ExprStmt(Call("slice.Iter", TUnit, f, g.expr(sc, TSlice(et), depth-1)))}
		}
	case 2:
		if depth > 0 {
			pre, m := g.matchUnion(sc, TUnit, depth)
			return append(pre, ExprStmt(m))
		}
	case 3:
		if depth > 0 {
			g.label("if/else statement")
			e := &Expr{K: "if", T: TUnit, Args: []*Expr{g.expr(sc, TBool, depth-1)}}
			e.Then = g.unitBlock(sc, depth-1)
			if g.chance(1, 4, "thenEndsWithOneLineIf") {
				// the then-block ends with a complete one-line if: the else below is the outer one's
				c, body := g.expr(sc, TBool, 0), g.unitExpr(sc, 0)
				if CanInline(c) && CanInline(body) && body.K != "if" {
					e.Then.Stmts = append(e.Then.Stmts, ExprStmt(e.Then.Final))
					e.Then.Final = &Expr{K: "if", T: TUnit, Args: []*Expr{c}, Then: Blk(body)}
					g.guardLeadingInterp(e.Then)
				}
			}
			g.guardDanglingElse(e.Then)
			e.Else = g.unitBlock(sc, depth-1)
			return []*Stmt{ExprStmt(e)}
		}
	}
	return []*Stmt{ExprStmt(g.unitExpr(sc, depth))}
}

func (g *Gen) unitBlock(sc *scope, depth int) *Block {
	inner := sc.child()
	b := &Block{}
	n := g.intn(2, "unitBlockExtra")
	for i := 0; i < n; i++ {
		b.Stmts = append(b.Stmts, g.unitStmts(inner, depth)...)
	}
	last := g.unitStmts(inner, depth)
	b.Stmts = append(b.Stmts, last[:len(last)-1]...)
	b.Final = last[len(last)-1].E
	g.guardLeadingInterp(b)
	return b
}

// block generates a block whose value has type t.
func (g *Gen) block(sc *scope, t *Type, depth int) *Block {
	if t.K == "unit" {
		return g.unitBlock(sc, depth)
	}
	inner := sc.child()
	b := &Block{}
	n := 0
	if depth > 0 && g.fuel > 0 {
		n = g.intn(4, "nstmts")
	}
	var lets []*varInfo
	for i := 0; i < n; i++ {
		switch k := g.intn(14, "stmtKind"); {
		case k == 13:
			if !(depth > 0 && g.pure == 0 && g.P.MatchArgs && g.fuel > 0) {
				continue
			}
			pre, val := g.matchArgCall(inner, depth-1)
			if val == nil {
				continue
			}
			b.Stmts = append(b.Stmts, pre...)
			name := g.fresh("v")
			b.Stmts = append(b.Stmts, Let(name, val))
			lets = append(lets, inner.add(name, val.T))
		case k == 12 && depth > 0 && g.pure == 0:
			// a match whose arms have a value, written as a statement: the value is discarded and the
			// block goes on (cmd/build_sample_md does this with the result of sys.WriteFile)
			t2 := []*Type{TInt, TString, TBool}[g.intn(3, "discardType")]
			// (only match: an `if` with valued branches in statement position is emitted as a Go if statement
			// whose branch values are bare expression statements, which Go rejects unless they are calls -
			// discarding a value is not a documented feature, so that form is left out)
			var pre []*Stmt
			var m *Expr
			if g.P.StringMatch && g.chance(1, 2, "discardKind") {
				pre, m = g.matchString(inner, t2, depth-1)
			} else {
				pre, m = g.matchUnion(inner, t2, depth-1)
			}
			b.Stmts = append(b.Stmts, pre...)
			if m.K == "matchu" || m.K == "matchs" {
				b.Stmts = append(b.Stmts, ExprStmt(m))
				g.label("value of a match discarded in statement position")
			} else {
				// the generator fell back to a plain expression (no depth left): bind it instead
				name := g.fresh("v")
				b.Stmts = append(b.Stmts, Let(name, m))
				lets = append(lets, inner.add(name, t2))
			}
		case k == 10 && g.P.Buf && depth > 0:
			st, v := g.bufEpisode(inner, depth-1)
			b.Stmts = append(b.Stmts, st...)
			lets = append(lets, v)
		case k == 11 && g.P.Dict && depth > 0:
			st, vs := g.dictEpisode(inner, depth-1)
			b.Stmts = append(b.Stmts, st...)
			lets = append(lets, vs...)
		case k <= 3:
			vt := g.pickDataType("letType")
			g.inRhs++
			var pre []*Stmt
			var val *Expr
			if g.P.InlineRhsOnly {
				val = g.expr(inner, vt, depth-1)
			} else {
				pre, val = g.stmtValue(inner, vt, depth-1)
			}
			g.inRhs--
			b.Stmts = append(b.Stmts, pre...)
			name := g.letName(inner, vt, "v")
			b.Stmts = append(b.Stmts, Let(name, val))
			v := inner.add(name, vt)
			if val.K == "slice" {
				v.knownLen = len(val.Args)
			}
			lets = append(lets, v)
		case k == 4:
			// destructuring let
			ts := []*Type{TInt, TString}
			if g.chance(1, 2, "destrTypes") {
				ts = []*Type{g.pickDataType("destrA"), g.pickDataType("destrB")}
			}
			if g.P.Tuple3 && g.chance(1, 4, "destr3") {
				ts = append(ts, TBool)
			}
			tt := TTuple(ts...)
			var val *Expr
			rebound, reboundAt := (*varInfo)(nil), 0
			if cands := g.shadowable(inner); len(cands) > 0 && !g.P.NoShadow && g.chance(1, 3, "destrRebinds") {
				// let (x, d) = (e, x + e'): one binder takes the name of a variable of an enclosing block and
				// another component of the tuple literal on the right still reads that variable (the right-hand
				// side is evaluated completely before any name is bound)
				rebound = cands[g.intn(len(cands), "destrReboundVar")]
				ts = []*Type{rebound.t, rebound.t}
				tt = TTuple(ts...)
				reboundAt = g.intn(2, "destrReboundAt")
				reads := g.useVar(rebound)
				switch rebound.t.K {
				case "int", "string":
					reads = Bin("+", rebound.t, reads, g.expr(inner, rebound.t, depth-1))
				}
				comps := []*Expr{g.expr(inner, rebound.t, depth-1), reads}
				if reboundAt == 1 {
					comps[0], comps[1] = comps[1], comps[0]
				}
				val = &Expr{K: "tuple", T: tt, Args: comps}
				g.label("destructuring let rebinding a name its right-hand side reads")
			} else {
				val = g.expr(inner, tt, depth-1)
			}
			st := &Stmt{K: "letd", E: val}
			var vs []*varInfo
			for i, et := range ts {
				name := g.fresh("d")
				if rebound != nil && i == reboundAt {
					name = rebound.name
				}
				st.Names = append(st.Names, name)
				vs = append(vs, inner.add(name, et))
			}
			b.Stmts = append(b.Stmts, st)
			lets = append(lets, vs...)
			g.label("destructuring let")
			// remember for the `_` fix-up
			st.F = nil
		case k == 5:
			// function-valued let: lambda or partial application, used later by name
			pt := []*Type{TInt, TString}[g.intn(2, "fletParam")]
			rt := []*Type{TInt, TString, TBool}[g.intn(3, "fletRet")]
			ft := TFunc([]*Type{pt}, rt)
			val := g.funcValue(inner, ft, depth-1)
			if val == nil {
				continue
			}
			if val.K == "var" && !strings.Contains(val.Name, ".") {
				// `let g = f` of a local name adds nothing
			}
			name := g.fresh("f")
			b.Stmts = append(b.Stmts, Let(name, val))
			v := inner.add(name, ft)
			v.isFunc = true
			lets = append(lets, v)
			g.label("function-valued let")
		case k == 6 && g.P.LocalFuncs && depth > 1 && g.inRhs == 0:
			f := g.localFunc(inner, depth-1)
			b.Stmts = append(b.Stmts, &Stmt{K: "letf", F: f})
			v := inner.add(f.Name, f.Type())
			v.isFunc = true
			lets = append(lets, v)
			g.label("local function")
		case k <= 8 && g.pure == 0:
			b.Stmts = append(b.Stmts, g.unitStmts(inner, depth-1)...)
		default:
			vt := []*Type{TInt, TString, TBool}[g.intn(3, "letBase")]
			val := g.expr(inner, vt, depth-1)
			name := g.letName(inner, vt, "v")
			b.Stmts = append(b.Stmts, Let(name, val))
			lets = append(lets, inner.add(name, vt))
		}
	}
	pre, fin := g.stmtValue(inner, t, depth)
	b.Stmts = append(b.Stmts, pre...)
	b.Final = fin
	// every let-bound name must be used (Go: declared and not used)
	for _, v := range lets {
		if v.used > 0 {
			continue
		}
		g.Steered["unused local made used"]++
		b.Stmts = append(b.Stmts, ExprStmt(g.useIt(inner, v)))
	}
	g.fixDestructuring(b)
	g.guardLeadingInterp(b)
	return b
}

// shadowable lists the variables a let of the block with scope inner may shadow (see letName), limited to
// first-order types.
func (g *Gen) shadowable(inner *scope) []*varInfo {
	forbidden := map[string]bool{}
	for _, v := range inner.vars {
		forbidden[v.name] = true
	}
	if p := inner.parent; p != nil && p.params {
		for _, v := range p.vars {
			forbidden[v.name] = true
		}
	}
	var out []*varInfo
	seen := map[string]bool{}
	for _, v := range inner.all() {
		if forbidden[v.name] || seen[v.name] || v.isFunc || !v.t.FirstOrder() || v.t.K == "unit" {
			continue
		}
		if v.t.K == "union" && g.union(v.t.Name).carriesFunc() {
			continue // neither printable nor comparable: an unused copy could not be made used
		}
		seen[v.name] = true
		out = append(out, v)
	}
	return out
}

// matchArgCall builds a call of a user function one of whose arguments is a match in parentheses, with
// probed arguments on both sides of it: either a full call, or - the match not being the last argument - a
// partial application used as a pipe stage (its supplied arguments are evaluated left to right when the
// stage runs). Falls back to the plain match when its arms are not single expressions.
func (g *Gen) matchArgCall(sc *scope, depth int) ([]*Stmt, *Expr) {
	base := func(t *Type) bool { return t.K == "int" || t.K == "string" || t.K == "bool" }
	type cand struct {
		f *FuncSig
		j int
	}
	var cands []cand
	for _, f := range g.Funcs {
		if len(f.TParams) > 0 || len(f.Params) < 2 || f.Ret.K == "unit" {
			continue
		}
		for j := 1; j < len(f.Params); j++ {
			if base(f.Params[j]) {
				cands = append(cands, cand{f, j})
			}
		}
	}
	if len(cands) == 0 {
		return nil, nil
	}
	c := cands[g.intn(len(cands), "matchArgCallee")]
	f, j := c.f, c.j
	var pre []*Stmt
	var m *Expr
	if g.P.StringMatch && g.chance(1, 2, "matchArgKind") {
		pre, m = g.matchString(sc, f.Params[j], 1)
	} else {
		pre, m = g.matchUnion(sc, f.Params[j], 1)
	}
	if m.K != "matchu" && m.K != "matchs" {
		return pre, m
	}
	ok := true
	chk := func(b *Block) {
		if b != nil && (len(b.Stmts) > 0 || !CanInline(b.Final)) {
			ok = false
		}
	}
	for _, a := range m.Arms {
		chk(a.Body)
	}
	chk(m.Default)
	if m.VarArm != nil {
		chk(m.VarArm.Body)
	}
	if !ok || !CanInline(m.Args[0]) {
		return pre, m
	}
	g.curRefs[f.Label] = true
	n := len(f.Params)
	args := make([]*Expr, n)
	for i, pt := range f.Params {
		switch {
		case i == j:
			args[i] = m
		case pt.K == "unit":
			args[i] = Unit()
		default:
			args[i] = g.maybeProbe(g.expr(sc, pt, min(depth, 1)), 2, 3)
		}
	}
	last := f.Params[n-1]
	if j < n-1 && last.FirstOrder() && last.K != "unit" && g.chance(1, 2, "matchArgPipe") {
		g.label("match as an argument of a partial application used as a pipe stage")
		stage := &Expr{K: "call", Name: f.Name, Args: args[:n-1], T: TFunc([]*Type{last}, f.Ret)}
		return pre, &Expr{K: "pipe", T: f.Ret, Args: []*Expr{args[n-1], stage}}
	}
	g.label("match as an argument of a call")
	return pre, &Expr{K: "call", Name: f.Name, Args: args, T: f.Ret}
}

// letName picks the name of a new let-bound variable of type vt in the block whose scope is inner:
// usually fresh, sometimes the name of a variable of an enclosing block (shadowing). A name of the block
// itself, or of the parameter / case-variable scope the block is the body of, is never reused: Go has
// one scope for parameters and body, and Folang documents no rebinding within one block.
func (g *Gen) letName(inner *scope, vt *Type, prefix string) string {
	if g.P.NoShadow || !g.chance(1, 4, "shadowLet") {
		return g.fresh(prefix)
	}
	forbidden := map[string]bool{}
	for _, v := range inner.vars {
		forbidden[v.name] = true
	}
	if p := inner.parent; p != nil && p.params {
		for _, v := range p.vars {
			forbidden[v.name] = true
		}
	}
	var same, other []*varInfo
	for _, v := range inner.all() {
		if forbidden[v.name] || v.isFunc || v.t.K == "func" {
			continue
		}
		if v.t.Equal(vt) {
			same = append(same, v)
		} else {
			other = append(other, v)
		}
	}
	switch {
	case len(same) > 0 && (len(other) == 0 || g.chance(3, 4, "shadowSameType")):
		g.label("let shadows an outer variable of the same type")
		return same[g.intn(len(same), "shadowWhichSame")].name
	case len(other) > 0:
		g.label("let shadows an outer variable of another type")
		return other[g.intn(len(other), "shadowWhichOther")].name
	}
	return g.fresh(prefix)
}

// bufEpisode: a buffer is made, written to in several call forms (direct, piped, under an if, through a
// partial application or a closure handed to slice.Iter) and read back into a string variable.
func (g *Gen) bufEpisode(sc *scope, depth int) ([]*Stmt, *varInfo) {
	g.label("buf.Buffer episode")
	bn := g.fresh("b")
	bv := Var(bn, TBuf)
	out := []*Stmt{Let(bn, Call("buf.New", TBuf, &Expr{K: "unit", T: TUnit}))}
	sc.add(bn, TBuf).used++
	d := depth
	if d > 1 {
		d = 1
	}
	n := 1 + g.intn(3, "bufWrites")
	for i := 0; i < n; i++ {
		switch g.intn(5, "bufWriteForm") {
		case 0:
			out = append(out, ExprStmt(&Expr{K: "pipe", T: TUnit, Args: []*Expr{g.expr(sc, TString, d), Call("buf.Write", TFunc([]*Type{TString}, TUnit), bv)}}))
			g.label("pipe into buf.Write")
		case 1:
			e := &Expr{K: "if", T: TUnit, Args: []*Expr{g.expr(sc, TBool, d)}}
			e.Then = Blk(Call("buf.Write", TUnit, bv, g.expr(sc, TString, d)))
			out = append(out, ExprStmt(e))
		case 2:
			out = append(out, ExprStmt(Call("slice.Iter", TUnit, Call("buf.Write", TFunc([]*Type{TString}, TUnit), bv), g.expr(sc, TSlice(TString), d))))
			g.label("partially applied buf.Write handed to slice.Iter")
		case 3:
			if g.P.Lambdas {
				pn := g.fresh("x")
				lam := &Expr{K: "lambda", T: TFunc([]*Type{TString}, TUnit), Params: []Param{{Name: pn, T: TString}},
					Body: Blk(Call("buf.Write", TUnit, bv, Var(pn, TString)))}
				out = append(out, ExprStmt(Call("slice.Iter", TUnit, lam, g.expr(sc, TSlice(TString), d))))
				g.label("closure over a buffer")
				break
			}
			fallthrough
		default:
			out = append(out, ExprStmt(Call("buf.Write", TUnit, bv, g.expr(sc, TString, d))))
		}
	}
	rn := g.fresh("v")
	out = append(out, Let(rn, Call("buf.String", TString, bv)))
	return out, sc.add(rn, TString)
}

// dictEpisode: a dictionary is made (dict.New with explicit type arguments, or dict.ToDict), extended with
// dict.Add (keys from a small pool, so overwrites happen) and queried. Keys / Values / KVs have no
// specified order and are only read through slice.Sort or slice.Length.
func (g *Gen) dictEpisode(sc *scope, depth int) ([]*Stmt, []*varInfo) {
	g.label("dict.Dict episode")
	kt := []*Type{TString, TInt}[g.intn(2, "dictKeyType")]
	vt := []*Type{TInt, TString, TBool}[g.intn(3, "dictValType")]
	dt := TDict(kt, vt)
	dn := g.fresh("dc")
	dv := Var(dn, dt)
	d := depth
	if d > 1 {
		d = 1
	}
	key := func() *Expr {
		if g.chance(1, 4, "dictKeyExpr") {
			return g.expr(sc, kt, d)
		}
		if kt.K == "int" {
			return Int(int64(g.intn(4, "dictKeyInt")))
		}
		return Str([]string{"a", "b", "", "k k"}[g.intn(4, "dictKeyStr")])
	}
	var out []*Stmt
	if g.chance(1, 2, "dictViaToDict") {
		var kvs []*Expr
		for i, n := 0, g.intn(4, "dictLitLen"); i < n; i++ {
			kvs = append(kvs, &Expr{K: "tuple", T: TTuple(kt, vt), Args: []*Expr{key(), g.expr(sc, vt, d)}})
		}
		if len(kvs) == 0 {
			out = append(out, Let(dn, Call("dict.ToDict", dt, &Expr{K: "call", Name: "slice.New", T: TSlice(TTuple(kt, vt)), TArgs: []*Type{TTuple(kt, vt)}, Args: []*Expr{{K: "unit", T: TUnit}}})))
		} else {
			out = append(out, Let(dn, Call("dict.ToDict", dt, &Expr{K: "slice", T: TSlice(TTuple(kt, vt)), Args: kvs})))
		}
		g.label("dict.ToDict")
	} else {
		out = append(out, Let(dn, &Expr{K: "call", Name: "dict.New", T: dt, TArgs: []*Type{kt, vt}, Args: []*Expr{{K: "unit", T: TUnit}}}))
	}
	sc.add(dn, dt).used++
	for i, n := 0, g.intn(4, "dictAdds"); i < n; i++ {
		out = append(out, ExprStmt(Call("dict.Add", TUnit, dv, key(), g.expr(sc, vt, d))))
	}
	var vars []*varInfo
	nq := 1 + g.intn(3, "dictQueries")
	for i := 0; i < nq; i++ {
		switch g.intn(6, "dictQuery") {
		case 0:
			a, b := g.fresh("d"), g.fresh("d")
			out = append(out, &Stmt{K: "letd", Names: []string{a, b}, E: Call("dict.TryFind", TTuple(vt, TBool), dv, key())})
			vars = append(vars, sc.add(a, vt), sc.add(b, TBool))
			g.label("dict.TryFind destructured")
		case 1:
			n := g.fresh("v")
			out = append(out, Let(n, Call("dict.ContainsKey", TBool, dv, key())))
			vars = append(vars, sc.add(n, TBool))
		case 2:
			n := g.fresh("v")
			out = append(out, Let(n, Call("dict.Item", vt, dv, key())))
			vars = append(vars, sc.add(n, vt))
		case 3:
			n := g.fresh("v")
			out = append(out, Let(n, &Expr{K: "pipe", T: TSlice(kt), Args: []*Expr{Call("dict.Keys", TSlice(kt), dv), Var("slice.Sort", TFunc([]*Type{TSlice(kt)}, TSlice(kt)))}}))
			vars = append(vars, sc.add(n, TSlice(kt)))
			g.label("dict.Keys sorted")
		case 4:
			if vt.K != "bool" {
				n := g.fresh("v")
				out = append(out, Let(n, Call("slice.Sort", TSlice(vt), Call("dict.Values", TSlice(vt), dv))))
				vars = append(vars, sc.add(n, TSlice(vt)))
				break
			}
			fallthrough
		default:
			n := g.fresh("v")
			out = append(out, Let(n, Call("slice.Length", TInt, Call("dict.KVs", TSlice(TTuple(kt, vt)), dv))))
			vars = append(vars, sc.add(n, TInt))
		}
	}
	return out, vars
}

// leftmost returns the leaf the printed text of e starts with.
func leftmost(e *Expr) *Expr {
	for {
		if e.Extra > 0 {
			return e
		}
		switch e.K {
		case "binop", "pipe", "field":
			e = e.Args[0]
			continue
		}
		return e
	}
}

// guardLeadingInterp: known finding D16 - a $"…" token is measured one column
// too far to the right, so a statement that starts with one is taken to be
// indented one column deeper than it is (it falls out of a block it starts, or
// into a preceding block that is indented by exactly one column more). Such a
// literal gets redundant parentheses whenever it would start a statement.
func (g *Gen) guardLeadingInterp(b *Block) {
	fix := func(e *Expr) {
		if e == nil {
			return
		}
		if l := leftmost(e); l.K == "interp" && l.Extra == 0 {
			l.Extra = 1
			g.Steered["no statement starts with a $ literal (known finding D16)"]++
		}
	}
	for _, s := range b.Stmts {
		if s.K == "expr" {
			fix(s.E)
		}
	}
	fix(b.Final)
}

// useIt builds a unit statement that uses variable v.
func (g *Gen) useIt(sc *scope, v *varInfo) *Expr {
	if v.t.K == "func" {
		var args []*Expr
		g.pure++
		for _, pt := range v.t.Params() {
			args = append(args, g.literal(sc, pt, 0))
		}
		g.pure--
		v.used++
		call := Call(v.name, v.t.Result(), args...)
		if v.t.Result().K == "unit" {
			return call
		}
		if !g.printable(v.t.Result()) {
			return Call("frt.Printf1", TUnit, Str("%v\n"), Bin("=", TBool, call, call))
		}
		return Call("frt.Printf1", TUnit, Str("%v\n"), call)
	}
	if !g.printable(v.t) {
		// compare it with itself instead of printing it
		return Call("frt.Printf1", TUnit, Str("%v\n"), Bin("=", TBool, g.useVar(v), g.useVar(v)))
	}
	return Call("frt.Printf1", TUnit, Str("%v\n"), g.useVar(v))
}

// fixDestructuring replaces unused destructured names by `_` (keeping one).
func (g *Gen) fixDestructuring(b *Block) {
	for i, s := range b.Stmts {
		if s.K != "letd" {
			continue
		}
		rest := &Block{Stmts: b.Stmts[i+1:], Final: b.Final}
		for j, n := range s.Names {
			if !rest.Uses(n) {
				s.Names[j] = "_"
				g.label("destructuring with _")
			}
		}
	}
}

func (g *Gen) localFunc(sc *scope, depth int) *FuncDecl {
	f := &FuncDecl{Name: g.fresh("loc")}
	inner := sc.child()
	inner.params = true
	np := 1 + g.intn(2, "localParams")
	for i := 0; i < np; i++ {
		pt := []*Type{TInt, TString, g.pickDataType("localParamType")}[g.intn(3, "localParamKind")]
		name := g.fresh("a")
		f.Params = append(f.Params, Param{Name: name, T: pt, Annot: true})
		inner.add(name, pt)
	}
	f.Ret = []*Type{TInt, TString, TBool}[g.intn(3, "localRet")]
	f.Body = g.block(inner, f.Ret, depth)
	// a closure over outer variables is the interesting case
	for _, v := range sc.all() {
		if f.Body.Uses(v.name) {
			g.label("local function closes over an outer variable")
			break
		}
	}
	return f
}

// --- functions and programs --------------------------------------------------------------------

// FuncFuel bounds the number of expression nodes of one top-level function:
// fc allocates at most 100 type variables per top-level definition ("Too many
// type var alloc."), a capacity limit the generator stays below by construction.
const FuncFuel = 45

func hasEffect(b *Block, funcs []*FuncSig) bool {
	eff := false
	b.Walk(func(e *Expr) {
		if e.K == "call" || e.K == "var" {
			switch e.Name {
			case "frt.Println", "frt.Printf1", "trace", "slice.Iter":
				eff = true
			}
			for _, f := range funcs {
				if f.Name == e.Name && f.Effect {
					eff = true
				}
			}
		}
	})
	return eff
}

// genFunc generates one top-level function and registers it.
func (g *Gen) genFunc(depth int) *TopItem {
	g.curRefs = map[string]bool{}
	g.fuel = FuncFuel
	g.tvUsed = 0
	g.inRhs = 0
	label := g.fresh("item")
	f := &FuncDecl{Name: g.fresh("fn")}
	sc := &scope{}
	// top-level variables defined so far are visible
	for _, gv := range g.globals {
		sc.add(gv.name, gv.t)
	}
	sc = sc.child()
	sc.params = true
	np := g.intn(4, "nparams")
	for i := 0; i < np; i++ {
		pt := g.pickDataType("paramType")
		if g.P.Lambdas && g.chance(1, 8, "funcParam") {
			pt = TFunc([]*Type{[]*Type{TInt, TString}[g.intn(2, "fpArg")]}, []*Type{TInt, TString, TBool}[g.intn(3, "fpRet")])
			g.label("function-typed parameter")
		}
		name := g.fresh("p")
		f.Params = append(f.Params, Param{Name: name, T: pt, Annot: true})
		g.refType(pt)
		sc.add(name, pt)
	}
	rets := g.dataTypes(1)
	var okRets []*Type
	for _, r := range rets {
		if g.printable(r) || g.P.LowerFields {
			okRets = append(okRets, r)
		}
	}
	f.Ret = okRets[g.intn(len(okRets), "retType")]
	g.refType(f.Ret)
	if g.chance(1, 4, "retAnnot") {
		f.RetAnnot = true
	}
	f.Body = g.block(sc, f.Ret, depth)
	for tries := 0; g.TVarCost(f.Body) > TVarCostLimit && tries < 8; tries++ {
		// too close to fc's capacity of type variables per definition: once more, smaller
		g.Steered["function body regenerated to stay below fc's type-variable capacity"]++
		g.fuel, g.tvUsed, g.inRhs = FuncFuel/2, MaxProbesPerFunc/2, 0
		f.Body = g.block(sc, f.Ret, max(1, depth-1-tries))
	}
	sig := &FuncSig{Name: f.Name, Ret: f.Ret, Label: label}
	for _, p := range f.Params {
		sig.Params = append(sig.Params, p.T)
	}
	sig.Effect = hasEffect(f.Body, g.Funcs)
	g.Funcs = append(g.Funcs, sig)
	return &TopItem{Func: f, Label: label, Refs: keys(g.curRefs)}
}

// genRecursive generates one of the fixed terminating recursion templates.
func (g *Gen) genRecursive() *TopItem {
	g.curRefs = map[string]bool{}
	g.fuel = 12
	g.tvUsed = 0
	label := g.fresh("item")
	name := g.fresh("rec")
	n, xs := "n", "xs"
	var f *FuncDecl
	if g.chance(1, 2, "recKind") {
		g.label("recursion: count-down")
		// let recN (n:int) : int = if n <= 0 then <base> else <step n> + recN (n - 1)
		sc := &scope{}
		sc.add(n, TInt)
		base := g.expr(sc, TInt, 1)
		step := g.expr(sc, TInt, 1)
		recCall := Call(name, TInt, Bin("-", TInt, Var(n, TInt), Int(1)))
		// the guard also bounds the depth: callers pass arbitrary integers
		guard := Bin("||", TBool, Bin("<=", TBool, Var(n, TInt), Int(0)), Bin(">", TBool, Var(n, TInt), Int(12)))
		guard.Args[0].Extra, guard.Args[1].Extra = 1, 1
		body := &Expr{K: "if", T: TInt, Args: []*Expr{guard},
			Then: Blk(base), Else: Blk(Bin("+", TInt, step, recCall))}
		f = &FuncDecl{Name: name, Params: []Param{{n, TInt, true}}, Ret: TInt, RetAnnot: g.chance(2, 3, "recRetAnnot") || g.P.Tinyfo, Body: Blk(body)}
	} else {
		g.label("recursion: structural on a slice")
		sc := &scope{}
		sc.add(xs, TSlice(TInt))
		base := g.expr(sc, TString, 1)
		head := Call("frt.Sprintf1", TString, Str("%d;"), Call("slice.Head", TInt, Var(xs, TSlice(TInt))))
		recCall := Call(name, TString, Call("slice.Tail", TSlice(TInt), Var(xs, TSlice(TInt))))
		body := &Expr{K: "if", T: TString, Args: []*Expr{Call("slice.IsEmpty", TBool, Var(xs, TSlice(TInt)))},
			Then: Blk(base), Else: Blk(Bin("+", TString, head, recCall))}
		f = &FuncDecl{Name: name, Params: []Param{{xs, TSlice(TInt), true}}, Ret: TString, RetAnnot: g.chance(2, 3, "recRetAnnot") || g.P.Tinyfo, Body: Blk(body)}
	}
	sig := &FuncSig{Name: f.Name, Ret: f.Ret, Label: label}
	for _, p := range f.Params {
		sig.Params = append(sig.Params, p.T)
	}
	sig.Effect = hasEffect(f.Body, g.Funcs) || g.P.Probes
	g.Funcs = append(g.Funcs, sig)
	return &TopItem{Func: f, Label: label, Refs: keys(g.curRefs)}
}

// Prelude: the probe function and the generic helpers, as ordinary Folang.
func (g *Gen) prelude() []*TopItem {
	tv := func(n string) *Type { return TVar(n) }
	var items []*TopItem
	trace := &FuncDecl{Name: "trace", Params: []Param{{"s", TString, true}, {"v", tv("a"), false}}, Ret: tv("a"), TParams: []string{"a"},
		Body: Blk(Var("v", tv("a")), ExprStmt(Call("frt.Println", TUnit, Var("s", TString))))}
	if g.P.Tinyfo {
		items = nil
		for _, x := range []struct {
			n string
			t *Type
		}{{"traceI", TInt}, {"traceS", TString}, {"traceB", TBool}} {
			f := &FuncDecl{Name: x.n, Params: []Param{{"s", TString, true}, {"v", x.t, true}}, Ret: x.t,
				Body: Blk(Var("v", x.t), ExprStmt(Call("frt.Println", TUnit, Var("s", TString))))}
			items = append(items, &TopItem{Func: f, Label: "prelude:" + x.n})
		}
		return items
	}
	items = append(items, &TopItem{Func: trace, Label: "prelude:trace"})
	if g.P.Generics {
		idd := &FuncDecl{Name: "idd", Params: []Param{{"x", tv("a"), false}}, Ret: tv("a"), TParams: []string{"a"}, Body: Blk(Var("x", tv("a")))}
		konst := &FuncDecl{Name: "konst", Params: []Param{{"a", tv("a"), false}, {"b", tv("b"), false}}, Ret: tv("a"), TParams: []string{"a", "b"}, Body: Blk(Var("a", tv("a")))}
		applyTo := &FuncDecl{Name: "applyTo", Params: []Param{{"x", tv("a"), false}, {"f", TFunc([]*Type{tv("a")}, tv("b")), false}}, Ret: tv("b"), TParams: []string{"a", "b"},
			Body: Blk(Call("f", tv("b"), Var("x", tv("a"))))}
		pair := &FuncDecl{Name: "pair", Params: []Param{{"a", tv("a"), false}, {"b", tv("b"), false}}, Ret: TTuple(tv("a"), tv("b")), TParams: []string{"a", "b"},
			Body: Blk(&Expr{K: "tuple", T: TTuple(tv("a"), tv("b")), Args: []*Expr{Var("a", tv("a")), Var("b", tv("b"))}})}
		for _, f := range []*FuncDecl{idd, konst, applyTo, pair} {
			items = append(items, &TopItem{Func: f, Label: "prelude:" + f.Name})
		}
	}
	if g.P.ReturnedFns {
		// functions that return functions: one whose returned function yields a value, one whose returned
		// function yields unit (a pipe into `mkShow "t"` has to become frt.PipeUnit although the stage is
		// a fully applied call)
		ii := TFunc([]*Type{TInt}, TInt)
		iu := TFunc([]*Type{TInt}, TUnit)
		mkAdd := &FuncDecl{Name: "mkAdd", Params: []Param{{"a", TInt, true}}, Ret: ii,
			Body: Blk(&Expr{K: "lambda", T: ii, Params: []Param{{Name: "b", T: TInt, Annot: true}}, Body: Blk(Bin("+", TInt, Var("a", TInt), Var("b", TInt)))})}
		mkShow := &FuncDecl{Name: "mkShow", Params: []Param{{"tag", TString, true}}, Ret: iu,
			Body: Blk(&Expr{K: "lambda", T: iu, Params: []Param{{Name: "n", T: TInt, Annot: true}},
				Body: Blk(Call("frt.Println", TUnit, Bin("+", TString, Var("tag", TString), Call("frt.Sprintf1", TString, Str("=%d"), Var("n", TInt)))))})}
		for _, f := range []*FuncDecl{mkAdd, mkShow} {
			items = append(items, &TopItem{Func: f, Label: "prelude:" + f.Name})
		}
	}
	return items
}

// GenProgram generates a whole program.
func (g *Gen) GenProgram() *Program {
	pr := &Program{}
	pr.Items = append(pr.Items, g.genTypeDecls()...)
	pr.Items = append(pr.Items, g.prelude()...)
	nUnits := 1 + g.intn(g.P.MaxUnits, "nunits")
	var mainStmts []*Stmt
	mainScope := &scope{}
	for u := 0; u < nUnits; u++ {
		// a unit: optional helpers, one entry function, one line of main
		if g.chance(1, 3, "helper") {
			pr.Items = append(pr.Items, g.genFunc(g.P.MaxDepth-1))
		}
		if g.chance(1, 5, "recursiveHelper") {
			pr.Items = append(pr.Items, g.genRecursive())
		}
		if !g.P.Tinyfo && g.chance(1, 4, "topVar") {
			pr.Items = append(pr.Items, g.genTopVar())
		}
		it := g.genFunc(g.P.MaxDepth)
		pr.Items = append(pr.Items, it)
		f := g.Funcs[len(g.Funcs)-1]
		g.curRefs = map[string]bool{}
		g.fuel = 10
		g.tvUsed = 0
		call := g.callUser(mainScope, f, nil, 2)
		if g.printable(f.Ret) {
			mainStmts = append(mainStmts, ExprStmt(Call("frt.Printf1", TUnit, Str(fmt.Sprintf("u%d=%%v\n", u)), call)))
		} else {
			call2 := g.callUser(mainScope, f, nil, 1)
			mainStmts = append(mainStmts, ExprStmt(Call("frt.Printf1", TUnit, Str(fmt.Sprintf("u%d=%%v\n", u)), Bin("=", TBool, call, call2))))
		}
	}
	main := &FuncDecl{Name: "main", Ret: TUnit, Body: &Block{Stmts: mainStmts[:len(mainStmts)-1], Final: mainStmts[len(mainStmts)-1].E}}
	pr.Items = append(pr.Items, &TopItem{Func: main, Label: "main"})
	if g.P.Tinyfo {
		// tinyfo reads a slice literal only at the start of a term: as an argument it is parenthesised
		for _, it := range pr.Items {
			if it.Func != nil {
				it.Func.Body.Walk(func(e *Expr) {
					if e.K == "call" {
						for _, a := range e.Args {
							if a.K == "slice" && a.Extra == 0 {
								a.Extra = 1
							}
						}
					}
				})
			}
		}
	}
	return pr
}

// SetNameOffset makes the generator's fresh names start after n, so that two
// generators produce disjoint names.
func (g *Gen) SetNameOffset(n int) { g.nameCtr = n }

// GenProgramNoMain generates type declarations and 1..3 functions, without
// prelude and main (the profile should have Probes and Generics off): items
// that can be inserted into another program without referring to it.
func (g *Gen) GenProgramNoMain() *Program {
	pr := &Program{}
	pr.Items = append(pr.Items, g.genTypeDecls()...)
	n := 1 + g.intn(3, "nextra")
	for i := 0; i < n; i++ {
		pr.Items = append(pr.Items, g.genFunc(g.P.MaxDepth-1))
	}
	return pr
}

// genTopVar generates a top-level `let name = expr` (a Go package variable).
// Its initialiser is effect-free: Go runs package initialisers before main.
func (g *Gen) genTopVar() *TopItem {
	g.curRefs = map[string]bool{}
	g.fuel = 8
	g.tvUsed = 0
	label := g.fresh("item")
	t := g.pickDataType("topVarType")
	name := g.fresh("tv")
	g.pure++
	sc := &scope{}
	for _, gv := range g.globals {
		sc.add(gv.name, gv.t)
	}
	e := g.expr(sc, t, 1)
	g.pure--
	g.globals = append(g.globals, &varInfo{name: name, t: t, knownLen: -1})
	g.label("top-level variable")
	return &TopItem{Var: Let(name, e), Label: label, Refs: keys(g.curRefs)}
}
