package lang

import (
	"fmt"
	"os"
	"testing"

	"pgregory.net/rapid"
)

// TestShow prints one generated program and its reference output (development aid).
func TestShow(t *testing.T) {
	if os.Getenv("LANG_SHOW") == "" {
		t.Skip()
	}
	rapid.Check(t, func(rt *rapid.T) {
		g := NewGen(rt, Full)
		pr := g.GenProgram()
		src := Print(pr, Canonical{})
		out, err := Run(pr)
		fmt.Printf("=====\n%s\n----- output (err=%v)\n%s\n", src, err, out)
	})
}
