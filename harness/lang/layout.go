package lang

import (
	"strings"

	"pgregory.net/rapid"
)

// RandomLayout draws every layout decision from rapid, inside the layout
// grammar of property C06, and records which kinds of non-canonical choice
// were actually made.
type RandomLayout struct {
	T     *rapid.T
	Kinds map[string]int
}

func NewRandomLayout(t *rapid.T) *RandomLayout {
	return &RandomLayout{T: t, Kinds: map[string]int{}}
}

func (l *RandomLayout) n(max int, label string) int {
	return rapid.IntRange(0, max).Draw(l.T, label)
}

func (l *RandomLayout) Indent() int {
	k := 1 + l.n(8, "indent")
	if k != 2 {
		l.Kinds["indentation width"]++
	}
	return k
}

func (l *RandomLayout) BlankLines() int {
	if l.n(5, "blankP") != 0 {
		return 0
	}
	l.Kinds["blank lines"]++
	return 1 + l.n(1, "blankN")
}

func (l *RandomLayout) TrailingSpaces() int {
	if l.n(7, "trailP") != 0 {
		return 0
	}
	l.Kinds["trailing spaces"]++
	return 1 + l.n(2, "trailN")
}

// the multi-line one stays last (TrailingComment never picks it)
var commentTexts = []string{"// note", "//", "// let x = 1", "/* block */", "/* if a then */", "// |> not code", "/**/", "// \"quote",
	"/*/ note */", "/*/ let y = 2 /**/", "/***/", "/* * / */", "/* // */", "// /* not open", "/* a\n   b */"}

func (l *RandomLayout) OwnLineComment() string {
	if l.n(8, "ownCommentP") != 0 {
		return ""
	}
	l.Kinds["own-line comment"]++
	return commentTexts[l.n(len(commentTexts)-1, "ownComment")]
}

func (l *RandomLayout) CommentIndent(cur int) int {
	// a comment line may sit at any indentation
	k := l.n(cur+6, "commentIndent")
	if k != cur {
		l.Kinds["comment at a foreign indentation"]++
	}
	return k
}

func (l *RandomLayout) TrailingComment() string {
	if l.n(9, "trailCommentP") != 0 {
		return ""
	}
	l.Kinds["trailing comment"]++
	c := commentTexts[l.n(len(commentTexts)-2, "trailComment")] // never the multi-line one
	if strings.Contains(c, "\n") {
		c = "// tail"
	}
	return c
}

func (l *RandomLayout) HeadComment() string {
	if l.n(11, "headCommentP") != 0 {
		return ""
	}
	l.Kinds["comment after a line that opens a block (= -> then else with {)"]++
	c := commentTexts[l.n(len(commentTexts)-2, "headComment")] // never the multi-line one
	if strings.Contains(c, "\n") {
		c = "// head"
	}
	return c
}

func (l *RandomLayout) IfOneLine() bool {
	b := l.n(1, "ifOneLine") == 1
	if b {
		l.Kinds["one-line if"]++
	}
	return b
}

func (l *RandomLayout) ArmBlockOnArrowLine() bool {
	b := l.n(2, "armBlockOnArrowLine") == 0
	if b {
		l.Kinds["multi-line arm body started on the -> line"]++
	}
	return b
}

func (l *RandomLayout) ArmOffset(lo int) int {
	k := rapid.IntRange(lo, 4).Draw(l.T, "armOffset")
	if k < 0 {
		l.Kinds["match arms left of the match keyword (let right-hand side on the next line)"]++
	} else if k > 0 {
		l.Kinds["indented cases / arms"]++
	}
	return k
}

func (l *RandomLayout) RhsNextLine() bool {
	b := l.n(2, "rhsNextLine") == 0
	if b {
		l.Kinds["let right-hand side on the next line"]++
	}
	return b
}

func (l *RandomLayout) ArmNextLine() bool {
	b := l.n(2, "armNextLine") == 0
	if b {
		l.Kinds["arm body on the next line"]++
	}
	return b
}

func (l *RandomLayout) PipeBreak() bool {
	b := l.n(2, "pipeBreak") == 0
	if b {
		l.Kinds["line break before |>"]++
	}
	return b
}

func (l *RandomLayout) ContinuationCol(lo, hi int) int {
	if hi <= lo {
		return hi
	}
	k := rapid.IntRange(lo, hi).Draw(l.T, "continuationCol")
	if k != hi {
		l.Kinds["pipeline continuation left of its first token"]++
	}
	return k
}

func (l *RandomLayout) RecordOneLine() bool {
	b := l.n(1, "recordOneLine") == 1
	if !b {
		l.Kinds["multi-line record declaration"]++
	}
	return b
}

func (l *RandomLayout) CaseIndent() int {
	k := l.n(4, "caseIndent")
	if k != 0 {
		l.Kinds["indented cases / arms"]++
	}
	return k
}
