package lang

import (
	"fmt"
	"sort"
	"strings"
)

// Layout supplies every layout decision of the printer. The canonical layout
// answers with fixed defaults; C06 plugs in random choices. All answers must
// stay inside the layout grammar of property C06.
type Layout interface {
	Indent() int            // indentation step of a new block body (>= 1)
	BlankLines() int        // empty lines before a statement / arm / declaration
	TrailingSpaces() int    // spaces appended to a finished line
	OwnLineComment() string // "" or a `// …` / `/* … */` comment put on its own line before a statement
	CommentIndent(cur int) int
	TrailingComment() string        // "" or a comment appended to a statement's last line
	HeadComment() string            // "" or a comment appended to a line that opens a block (after = -> then else with {)
	IfOneLine() bool                // write an eligible if on one line
	ArmBlockOnArrowLine() bool      // a multi-line arm body starts on the `->` line, aligned under its first token
	ArmOffset(lo int) int           // column of the arms relative to `match` where they may go left of it (lo <= 0)
	RhsNextLine() bool              // put a let's right-hand side on the next line
	ArmNextLine() bool              // put a match arm's body on the next line
	PipeBreak() bool                // break the line before this |>
	ContinuationCol(lo, hi int) int // column of a broken pipeline's continuation lines when the pipeline starts mid-line (lo..hi)
	RecordOneLine() bool
	CaseIndent() int // indentation of union cases / match arms relative to their head (0..)
}

// Canonical is the fixed layout used wherever layout is not the subject.
type Canonical struct{}

func (Canonical) Indent() int                    { return 2 }
func (Canonical) BlankLines() int                { return 0 }
func (Canonical) TrailingSpaces() int            { return 0 }
func (Canonical) OwnLineComment() string         { return "" }
func (Canonical) CommentIndent(cur int) int      { return cur }
func (Canonical) TrailingComment() string        { return "" }
func (Canonical) HeadComment() string            { return "" }
func (Canonical) IfOneLine() bool                { return false }
func (Canonical) ArmBlockOnArrowLine() bool      { return false }
func (Canonical) ArmOffset(lo int) int           { return 0 }
func (Canonical) RhsNextLine() bool              { return false }
func (Canonical) ArmNextLine() bool              { return false }
func (Canonical) PipeBreak() bool                { return false }
func (Canonical) ContinuationCol(lo, hi int) int { return hi }
func (Canonical) RecordOneLine() bool            { return true }
func (Canonical) CaseIndent() int                { return 0 }

var opRank = map[string]int{
	"|>": 1,
	"&&": 2, "||": 2, "<": 2, ">": 2, "<=": 2, ">=": 2,
	"=": 3, "<>": 3,
	"+": 4, "-": 4,
	"*": 5, "/": 5,
}

type Printer struct {
	L     Layout
	lines []string
	// armFloor (<= 0, consumed by the next match printed): how far left of the `match` keyword its arms may go
	armFloor int
}

// ArmMark stands at the start of every continuation line of a match written in argument position.
const ArmMark = "\x01"

func (p *Printer) line(indent int, s string) {
	if strings.Contains(s, ArmMark) {
		// the arms of a match in argument position: anywhere right of the line's own indentation
		s = strings.ReplaceAll(s, ArmMark, strings.Repeat(" ", indent+p.L.Indent()))
	}
	p.lines = append(p.lines, strings.Repeat(" ", indent)+s+strings.Repeat(" ", p.L.TrailingSpaces()))
}

// head prints a line that opens a block (its body follows on the next lines); a comment may follow it.
func (p *Printer) head(indent int, s string) {
	p.line(indent, s)
	if c := p.L.HeadComment(); c != "" {
		p.lines[len(p.lines)-1] = strings.TrimRight(p.lines[len(p.lines)-1], " ") + " " + c
	}
}

func (p *Printer) blank() {
	for i, n := 0, p.L.BlankLines(); i < n; i++ {
		p.lines = append(p.lines, "")
	}
}

// before a statement-like line: optional blank lines and own-line comment
func (p *Printer) lead(indent int) {
	p.blank()
	if c := p.L.OwnLineComment(); c != "" {
		p.lines = append(p.lines, strings.Repeat(" ", p.L.CommentIndent(indent))+c)
	}
}

// appendToLast appends text to the last emitted line (trailing comment).
func (p *Printer) trail() {
	if c := p.L.TrailingComment(); c != "" && len(p.lines) > 0 {
		last := strings.TrimRight(p.lines[len(p.lines)-1], " ")
		if last != "" {
			p.lines[len(p.lines)-1] = last + " " + c
		}
	}
}

// --- inline expressions ---------------------------------------------------------------

// CanInline: the expression can be written on one line.
func CanInline(e *Expr) bool {
	switch e.K {
	case "matchu", "matchs":
		return false
	case "if":
		if len(e.Elifs) > 0 || e.Else == nil {
			return false
		}
		if len(e.Then.Stmts) > 0 || len(e.Else.Stmts) > 0 {
			return false
		}
		return CanInline(e.Args[0]) && CanInline(e.Then.Final) && CanInline(e.Else.Final)
	case "lambda":
		return len(e.Body.Stmts) == 0 && CanInline(e.Body.Final)
	}
	for _, a := range e.Args {
		if !CanInline(a) {
			return false
		}
	}
	for _, f := range e.Fields {
		if !CanInline(f.E) {
			return false
		}
	}
	return true
}

// holdsMatchArg: a call or pipeline that is inline apart from a match written in argument position
// (whose arms go on continuation lines).
func holdsMatchArg(e *Expr) bool {
	if e.K != "call" && e.K != "pipe" {
		return false
	}
	found := false
	for _, a := range e.Args {
		switch {
		case (a.K == "matchu" || a.K == "matchs") && a.Extra == 0:
			found = true
		case a.K == "call" && holdsMatchArg(a):
			found = true
		case !CanInline(a):
			return false
		}
	}
	return found
}

// isAtom: can appear as a function argument without parentheses.
func isAtom(e *Expr) bool {
	if e.Extra > 0 {
		return true
	}
	switch e.K {
	case "int":
		return e.I >= 0
	case "str", "bool", "unit", "var", "tuple", "slice", "reclit", "paren", "interp", "fieldfn":
		return len(e.TArgs) == 0 || e.K == "var"
	case "field":
		return isAtom(e.Args[0]) && e.Args[0].K != "int"
	}
	return false
}

func quotePlain(s string) string {
	var sb strings.Builder
	sb.WriteByte('"')
	for i := 0; i < len(s); i++ {
		switch c := s[i]; c {
		case '\n':
			sb.WriteString(`\n`)
		case '\t':
			sb.WriteString(`\t`)
		case '\\':
			sb.WriteString(`\\`)
		case '"':
			sb.WriteString(`\"`)
		default:
			sb.WriteByte(c)
		}
	}
	sb.WriteByte('"')
	return sb.String()
}

// StrLitSrc renders a string literal in the requested form.
func StrLitSrc(s, form string) string {
	if form == "raw" {
		return "`" + s + "`"
	}
	return quotePlain(s)
}

func interpSrc(e *Expr) string {
	var sb strings.Builder
	raw := e.StrForm == "rawinterp"
	for _, p := range e.Parts {
		if p.Var != "" {
			sb.WriteString("{" + p.Var + "}")
			continue
		}
		if raw {
			sb.WriteString(p.Text)
			continue
		}
		q := quotePlain(p.Text)
		q = q[1 : len(q)-1]
		q = strings.ReplaceAll(q, "{", `\{`)
		q = strings.ReplaceAll(q, "}", `\}`)
		sb.WriteString(q)
	}
	if raw {
		return "$`" + sb.String() + "`"
	}
	return `$"` + sb.String() + `"`
}

func targsSrc(ts []*Type) string {
	if len(ts) == 0 {
		return ""
	}
	var p []string
	for _, t := range ts {
		p = append(p, t.Src(0))
	}
	return "<" + strings.Join(p, ", ") + ">"
}

// Inline renders e on one line. ctx: 0 = anywhere a full expression may stand,
// otherwise the rank of the enclosing binary operator (+100 when e is its
// right operand), 1000 = function argument position.
func Inline(e *Expr, ctx int) string {
	s := inline0(e, ctx)
	for i := 0; i < e.Extra; i++ {
		s = "(" + s + ")"
	}
	return s
}

func paramsSrc(ps []Param) string {
	if len(ps) == 0 {
		return "()"
	}
	var out []string
	for _, p := range ps {
		if p.Annot {
			out = append(out, fmt.Sprintf("(%s:%s)", p.Name, p.T.Src(0)))
		} else {
			out = append(out, p.Name)
		}
	}
	return strings.Join(out, " ")
}

func inline0(e *Expr, ctx int) string {
	argCtx := ctx == 1000
	wrap := func(s string, need bool) string {
		if need && e.Extra == 0 {
			return "(" + s + ")"
		}
		return s
	}
	switch e.K {
	case "int":
		if e.I < 0 {
			return wrap(fmt.Sprintf("0 - %d", -e.I), ctx != 0)
		}
		return fmt.Sprint(e.I)
	case "str":
		return StrLitSrc(e.S, e.StrForm)
	case "interp":
		return interpSrc(e)
	case "bool":
		if e.B {
			return "true"
		}
		return "false"
	case "unit":
		return "()"
	case "var":
		return e.Name + targsSrc(e.TArgs)
	case "paren":
		return "(" + Inline(e.Args[0], 0) + ")"
	case "call":
		parts := []string{e.Name + targsSrc(e.TArgs)}
		for _, a := range e.Args {
			parts = append(parts, Inline(a, 1000))
		}
		return wrap(strings.Join(parts, " "), argCtx)
	case "not":
		// prefix not applies to the following application
		x := e.Args[0]
		if x.K == "call" && x.Extra == 0 {
			return wrap("not "+Inline(x, 0), argCtx)
		}
		return wrap("not "+Inline(x, 1000), argCtx)
	case "binop":
		r := opRank[e.Name]
		l := Inline(e.Args[0], r)
		rr := Inline(e.Args[1], r+100)
		need := false
		switch {
		case ctx == 0:
		case ctx == 1000:
			need = true
		case ctx >= 100: // right operand of an operator of rank ctx-100: needs strictly tighter
			need = r <= ctx-100
		default: // left operand: needs tighter or equal (left associativity)
			need = r < ctx
		}
		return wrap(l+" "+e.Name+" "+rr, need)
	case "pipe":
		l := Inline(e.Args[0], 1)
		rr := Inline(e.Args[1], 101)
		return wrap(l+" |> "+rr, ctx != 0 && ctx != 1)
	case "tuple":
		var ps []string
		for _, a := range e.Args {
			ps = append(ps, Inline(a, 0))
		}
		return "(" + strings.Join(ps, ", ") + ")"
	case "slice":
		var ps []string
		for _, a := range e.Args {
			ps = append(ps, Inline(a, 0))
		}
		return "[" + strings.Join(ps, "; ") + "]"
	case "reclit":
		var ps []string
		for i, f := range e.Fields {
			n := f.Name
			if i == 0 && e.Qualified {
				n = e.Name + "." + n
			}
			ps = append(ps, n+"="+Inline(f.E, 0))
		}
		return "{" + strings.Join(ps, "; ") + "}"
	case "field":
		return Inline(e.Args[0], 1000) + "." + e.Name
	case "fieldfn":
		return "_." + e.Name
	case "matchu", "matchs":
		// a match in argument position: parenthesised, `match … with` on the current line, one arm per
		// continuation line (ArmMark is replaced by the indentation of the line the text ends up in plus a
		// layout-chosen offset); only generated with single-expression arms and never nested in another one
		var sb strings.Builder
		sb.WriteString("(match " + Inline(e.Args[0], 0) + " with")
		arm := func(head string, b *Block) { sb.WriteString("\n" + ArmMark + head + " -> " + Inline(b.Final, 0)) }
		for _, a := range e.Arms {
			head := "| " + a.Case
			if e.K == "matchs" {
				head = "| " + quotePlain(a.Lit)
			} else if a.Bind != "" {
				head += " " + a.Bind
			}
			arm(head, a.Body)
		}
		if e.VarArm != nil {
			arm("| "+e.VarArm.Bind, e.VarArm.Body)
		}
		if e.Default != nil {
			arm("| _", e.Default)
		}
		return sb.String() + ")"
	case "lambda":
		return wrap("fun "+paramsSrc(e.Params)+" -> "+Inline(e.Body.Final, 0), ctx != 0)
	case "if":
		return wrap("if "+Inline(e.Args[0], 0)+" then "+Inline(e.Then.Final, 0)+" else "+Inline(e.Else.Final, 0), ctx != 0)
	}
	panic("lang.Inline: not inlinable: " + e.K)
}

// --- statements and blocks -----------------------------------------------------------------

func (p *Printer) block(b *Block, indent int) {
	for _, s := range b.Stmts {
		p.stmt(s, indent)
	}
	p.lead(indent)
	p.expr(b.Final, indent, "")
	p.trail()
}

func (p *Printer) stmt(s *Stmt, indent int) {
	p.lead(indent)
	switch s.K {
	case "let":
		p.letLike("let "+s.Name+" =", s.E, indent)
	case "letd":
		p.letLike("let ("+strings.Join(s.Names, ", ")+") =", s.E, indent)
	case "letf":
		p.funcDecl(s.F, indent)
		return
	case "expr":
		p.expr(s.E, indent, "")
	}
	p.trail()
}

// letLike prints `head <rhs>`.
func (p *Printer) letLike(head string, e *Expr, indent int) {
	multi := !CanInline(e) || (e.K == "if" && !p.ifOneLineOK(e))
	if e.K == "lambda" && !CanInline(e) {
		// let f = fun x ->
		//   body
		p.head(indent, head+" fun "+paramsSrc(e.Params)+" ->")
		p.block(e.Body, indent+p.L.Indent())
		return
	}
	if holdsMatchArg(e) && !p.L.RhsNextLine() {
		// let r = x |> f a (match m with
		//   | … -> …)
		p.line(indent, head+" "+Inline(e, 0))
		return
	}
	if multi || p.L.RhsNextLine() {
		p.head(indent, head)
		in := indent + p.L.Indent()
		if (e.K == "matchu" || e.K == "matchs") && e.Extra == 0 {
			// the arms of a match that is a let's right-hand side on the next line may sit left of the
			// `match` keyword, down to the column of the let (the value is an expression, not a block)
			p.armFloor = indent - in
		}
		p.expr(e, in, "")
		return
	}
	if e.K == "pipe" && e.Extra == 0 {
		p.pipeAfterHead(indent, head, e)
		return
	}
	p.line(indent, head+" "+Inline(e, 0))
}

// pipeAfterHead prints `head stage0 |> stage1 ...` where the pipeline starts mid-line; it may break
// before any |>, the continuation lines sitting anywhere between one column right of the line's own
// indentation and the column of the pipeline's first token.
func (p *Printer) pipeAfterHead(indent int, head string, e *Expr) {
	stages := pipeStages(e)
	hi := indent + len(head) + 1
	lo := indent + 1
	for _, st := range stages[1:] {
		st.Walk(func(x *Expr) {
			if x.K == "lambda" || x.K == "if" {
				// a nested block on a continuation line must start right of the pipeline's first
				// token (fc: "Overrun offside rule" otherwise): keep the documented aligned style
				lo = hi
			}
		})
	}
	col := p.L.ContinuationCol(lo, hi)
	first := true
	cur := head + " " + Inline(stages[0], 1)
	for _, st := range stages[1:] {
		if p.L.PipeBreak() {
			if first {
				p.line(indent, cur)
				first = false
			} else {
				p.line(col, cur)
			}
			cur = "|> " + Inline(st, 101)
		} else {
			cur += " |> " + Inline(st, 101)
		}
	}
	if first {
		p.line(indent, cur)
	} else {
		p.line(col, cur)
	}
}

func pipeStages(e *Expr) []*Expr {
	if e.K == "pipe" && e.Extra == 0 {
		return append(pipeStages(e.Args[0]), e.Args[1])
	}
	return []*Expr{e}
}

func (p *Printer) ifOneLineOK(e *Expr) bool {
	if len(e.Elifs) > 0 {
		return false
	}
	if len(e.Then.Stmts) > 0 || !CanInline(e.Then.Final) || !CanInline(e.Args[0]) {
		return false
	}
	if e.Else != nil && (len(e.Else.Stmts) > 0 || !CanInline(e.Else.Final)) {
		return false
	}
	// a nested statement-level if inside a one-line if would be ambiguous
	if e.Then.Final.K == "if" || (e.Else != nil && e.Else.Final.K == "if") {
		return false
	}
	if e.OneLine {
		return true
	}
	return p.L.IfOneLine()
}

// expr prints an expression at statement level (own lines at indent); prefix
// is written before it on the first line (e.g. an arm head).
func (p *Printer) expr(e *Expr, indent int, prefix string) {
	if e.Extra > 0 {
		p.line(indent, prefix+Inline(e, 0))
		return
	}
	switch e.K {
	case "if":
		if p.ifOneLineOK(e) {
			s := "if " + Inline(e.Args[0], 0) + " then " + Inline(e.Then.Final, 0)
			if e.Else != nil {
				s += " else " + Inline(e.Else.Final, 0)
			}
			p.line(indent, prefix+s)
			return
		}
		p.head(indent, prefix+"if "+Inline(e.Args[0], 0)+" then")
		p.block(e.Then, indent+p.L.Indent())
		for _, el := range e.Elifs {
			p.head(indent, "elif "+Inline(el.Cond, 0)+" then")
			p.block(el.Body, indent+p.L.Indent())
		}
		if e.Else != nil {
			p.head(indent, "else")
			p.block(e.Else, indent+p.L.Indent())
		}
	case "matchu", "matchs":
		p.head(indent, prefix+"match "+Inline(e.Args[0], 0)+" with")
		ai := indent + p.L.CaseIndent()
		if p.armFloor < 0 {
			ai = indent + p.L.ArmOffset(p.armFloor)
			p.armFloor = 0
		}
		for _, a := range e.Arms {
			head := "| " + a.Case
			if e.K == "matchs" {
				head = "| " + quotePlain(a.Lit)
			} else if a.Bind != "" {
				head += " " + a.Bind
			}
			p.arm(head+" ->", a.Body, ai)
		}
		if e.VarArm != nil {
			p.arm("| "+e.VarArm.Bind+" ->", e.VarArm.Body, ai)
		}
		if e.Default != nil {
			p.arm("| _ ->", e.Default, ai)
		}
	case "pipe":
		stages := pipeStages(e)
		cur := prefix + Inline(stages[0], 1)
		for _, st := range stages[1:] {
			if p.L.PipeBreak() {
				p.line(indent, cur)
				cur = "|> " + Inline(st, 101)
			} else {
				cur += " |> " + Inline(st, 101)
			}
		}
		p.line(indent, cur)
	default:
		p.line(indent, prefix+Inline(e, 0))
	}
}

func (p *Printer) arm(head string, body *Block, indent int) {
	p.blank()
	if c := p.L.OwnLineComment(); c != "" {
		p.lines = append(p.lines, strings.Repeat(" ", p.L.CommentIndent(indent))+c)
	}
	single := len(body.Stmts) == 0 && CanInline(body.Final) && !(body.Final.K == "if" && body.Final.Else == nil)
	if single && !p.L.ArmNextLine() {
		if body.Final.K == "pipe" && body.Final.Extra == 0 {
			p.pipeAfterHead(indent, head, body.Final)
		} else {
			p.line(indent, head+" "+Inline(body.Final, 0))
		}
		p.trail()
		return
	}
	if !single && isASCII(head) && p.L.ArmBlockOnArrowLine() {
		// the body block starts on the `->` line and continues at the column of its first token
		col := indent + len(head) + 1
		start := len(p.lines)
		p.block(body, col)
		pad := strings.Repeat(" ", col)
		if len(p.lines) > start && strings.HasPrefix(p.lines[start], pad) {
			first := p.lines[start][col:]
			if first != "" && first[0] != ' ' && !strings.HasPrefix(first, "//") && !strings.HasPrefix(first, "/*") {
				p.lines[start] = strings.Repeat(" ", indent) + head + " " + first
				return
			}
		}
		p.lines = p.lines[:start] // a blank or comment line came first: write it the ordinary way
	}
	p.head(indent, head)
	p.block(body, indent+p.L.Indent())
}

func isASCII(s string) bool {
	for i := 0; i < len(s); i++ {
		if s[i] >= 0x80 {
			return false
		}
	}
	return true
}

func (p *Printer) funcDecl(f *FuncDecl, indent int) {
	head := "let " + f.Name + " " + paramsSrc(f.Params)
	if f.RetAnnot {
		head += " : " + f.Ret.Src(0)
	}
	head += " ="
	b := f.Body
	if len(b.Stmts) == 0 && CanInline(b.Final) && !p.L.RhsNextLine() && b.Final.K != "if" {
		if b.Final.K == "pipe" && b.Final.Extra == 0 {
			p.pipeAfterHead(indent, head, b.Final)
		} else {
			p.line(indent, head+" "+Inline(b.Final, 0))
		}
		p.trail()
		return
	}
	p.head(indent, head)
	p.block(b, indent+p.L.Indent())
}

func (p *Printer) typeDecl(d *TypeDecl) {
	kw := "type"
	if d.And {
		kw = "and"
	}
	if d.Rec != nil {
		r := d.Rec
		name := r.Name
		if len(r.TParams) > 0 {
			name += "<" + strings.Join(r.TParams, ", ") + ">"
		}
		if p.L.RecordOneLine() {
			var fs []string
			for _, f := range r.Fields {
				fs = append(fs, f.Name+": "+f.T.Src(0))
			}
			p.line(0, kw+" "+name+" = {"+strings.Join(fs, "; ")+"}")
			return
		}
		p.head(0, kw+" "+name+" = {")
		ind := p.L.Indent()
		for _, f := range r.Fields {
			p.lead(ind)
			p.line(ind, f.Name+": "+f.T.Src(0)+";")
			p.trail()
		}
		p.line(0, "}")
		return
	}
	u := d.Union
	name := u.Name
	if len(u.TParams) > 0 {
		name += "<" + strings.Join(u.TParams, ", ") + ">"
	}
	p.head(0, kw+" "+name+" =")
	ci := p.L.CaseIndent()
	for _, c := range u.Cases {
		p.lead(ci)
		if c.Payload != nil {
			p.line(ci, "| "+c.Name+" of "+c.Payload.Src(0))
		} else {
			p.line(ci, "| "+c.Name)
		}
		p.trail()
	}
}

// Imports computes the packages a program uses (qualified callee / var names).
func (pr *Program) UsedPackages() []string {
	set := map[string]bool{}
	note := func(name string) {
		if i := strings.IndexByte(name, '.'); i > 0 {
			pk := name[:i]
			switch pk {
			case "frt", "slice", "strings", "dict", "buf", "sys":
				set[pk] = true
			}
		}
	}
	visit := func(e *Expr) {
		if e.K == "call" || e.K == "var" {
			note(e.Name)
		}
	}
	var noteType func(t *Type)
	noteType = func(t *Type) {
		if t == nil {
			return
		}
		if t.K == "buf" {
			set["buf"] = true
		}
		if t.K == "dict" {
			set["dict"] = true
		}
		for _, e := range t.E {
			noteType(e)
		}
	}
	for _, it := range pr.Items {
		if it.Func != nil {
			it.Func.Body.Walk(visit)
			for _, pa := range it.Func.Params {
				if pa.Annot {
					noteType(pa.T)
				}
			}
			if it.Func.RetAnnot {
				noteType(it.Func.Ret)
			}
		}
		if it.Var != nil {
			it.Var.E.Walk(visit)
		}
		for _, td := range it.Types {
			if td.Rec != nil {
				for _, f := range td.Rec.Fields {
					noteType(f.T)
				}
			}
			if td.Union != nil {
				for _, c := range td.Union.Cases {
					noteType(c.Payload)
				}
			}
		}
		if it.Raw != "" {
			for _, pk := range []string{"frt", "slice", "strings", "dict", "buf", "sys"} {
				if strings.Contains(it.Raw, pk+".") {
					set[pk] = true
				}
			}
		}
	}
	var out []string
	for k := range set {
		out = append(out, k)
	}
	sort.Strings(out)
	return out
}

// Print renders the whole program.
func Print(pr *Program, l Layout) string {
	p := &Printer{L: l}
	p.lines = append(p.lines, "package main", "")
	imps := pr.Imports
	if imps == nil {
		imps = pr.UsedPackages()
	}
	for _, im := range imps {
		if strings.Contains(im, "/") || strings.Contains(im, "\"") {
			p.lines = append(p.lines, "import "+im)
		} else {
			p.lines = append(p.lines, "import "+im)
		}
	}
	p.lines = append(p.lines, "")
	for _, it := range pr.Items {
		p.PrintItem(it)
		p.lines = append(p.lines, "")
	}
	return strings.Join(p.lines, "\n") + "\n"
}

// PrintItem renders one top-level item.
func (p *Printer) PrintItem(it *TopItem) {
	p.lead(0)
	switch {
	case it.Raw != "":
		for _, l := range strings.Split(strings.TrimRight(it.Raw, "\n"), "\n") {
			p.lines = append(p.lines, l)
		}
	case it.Types != nil:
		for _, d := range it.Types {
			p.typeDecl(d)
		}
	case it.Func != nil:
		p.funcDecl(it.Func, 0)
	case it.Var != nil:
		p.letLike("let "+it.Var.Name+" =", it.Var.E, 0)
	}
}

// ItemText renders a single item canonically (for C07 comparisons and hashing).
func ItemText(it *TopItem, l Layout) string {
	p := &Printer{L: l}
	p.PrintItem(it)
	return strings.Join(p.lines, "\n") + "\n"
}
