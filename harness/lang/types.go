// Package lang is the Folang model shared by the program-level properties: a
// typed abstract syntax, a printer with pluggable layout, a reference
// evaluator (strict, left-to-right, lexically scoped) and a type-directed
// program generator. Nothing here shares code with fc or looks at emitted Go.
package lang

import (
	"fmt"
	"strings"
)

// Type is a Folang type.
type Type struct {
	K    string  // int string bool unit tuple slice rec union func tvar buf
	E    []*Type // tuple: components; slice: element; func: params..., result; rec/union: type arguments
	Name string  // rec / union name; tvar name
}

var (
	TInt    = &Type{K: "int"}
	TString = &Type{K: "string"}
	TBool   = &Type{K: "bool"}
	TUnit   = &Type{K: "unit"}
	TBuf    = &Type{K: "buf"}
)

// TDict is dict.Dict<K, V> (a mutable reference: dict.Add changes it in place).
func TDict(k, v *Type) *Type { return &Type{K: "dict", E: []*Type{k, v}} }

func TSlice(e *Type) *Type     { return &Type{K: "slice", E: []*Type{e}} }
func TTuple(es ...*Type) *Type { return &Type{K: "tuple", E: es} }
func TFunc(ps []*Type, r *Type) *Type {
	return &Type{K: "func", E: append(append([]*Type{}, ps...), r)}
}
func TRec(name string, args ...*Type) *Type   { return &Type{K: "rec", Name: name, E: args} }
func TUnion(name string, args ...*Type) *Type { return &Type{K: "union", Name: name, E: args} }
func TVar(name string) *Type                  { return &Type{K: "tvar", Name: name} }

func (t *Type) Params() []*Type { return t.E[:len(t.E)-1] }
func (t *Type) Result() *Type   { return t.E[len(t.E)-1] }
func (t *Type) Elem() *Type     { return t.E[0] }

func (t *Type) Equal(o *Type) bool {
	if t == nil || o == nil {
		return t == o
	}
	if t.K != o.K || t.Name != o.Name || len(t.E) != len(o.E) {
		return false
	}
	for i := range t.E {
		if !t.E[i].Equal(o.E[i]) {
			return false
		}
	}
	return true
}

// FirstOrder: no function inside (printable / comparable values).
func (t *Type) FirstOrder() bool {
	if t.K == "func" || t.K == "buf" || t.K == "tvar" || t.K == "dict" {
		return false
	}
	for _, e := range t.E {
		if !e.FirstOrder() {
			return false
		}
	}
	return true
}

func (t *Type) HasTVar() bool {
	if t.K == "tvar" {
		return true
	}
	for _, e := range t.E {
		if e.HasTVar() {
			return true
		}
	}
	return false
}

// Subst replaces type variables.
func (t *Type) Subst(m map[string]*Type) *Type {
	if t.K == "tvar" {
		if r, ok := m[t.Name]; ok {
			return r
		}
		return t
	}
	if len(t.E) == 0 {
		return t
	}
	n := &Type{K: t.K, Name: t.Name}
	for _, e := range t.E {
		n.E = append(n.E, e.Subst(m))
	}
	return n
}

// Src renders the type in Folang syntax. level: 0 full, 1 operand of ->, 2 operand of * or [].
func (t *Type) Src(level int) string {
	switch t.K {
	case "int", "string", "bool":
		return t.K
	case "unit":
		return "()"
	case "buf":
		return "buf.Buffer"
	case "dict":
		return "dict.Dict<" + t.E[0].Src(0) + ", " + t.E[1].Src(0) + ">"
	case "tvar":
		return t.Name
	case "slice":
		return "[]" + t.E[0].Src(2)
	case "tuple":
		var p []string
		for _, e := range t.E {
			p = append(p, e.Src(2))
		}
		s := strings.Join(p, "*")
		if level >= 2 {
			s = "(" + s + ")"
		}
		return s
	case "func":
		var p []string
		for _, e := range t.E {
			p = append(p, e.Src(1))
		}
		s := strings.Join(p, "->")
		if level >= 1 {
			s = "(" + s + ")"
		}
		return s
	case "rec", "union":
		if len(t.E) == 0 {
			return t.Name
		}
		var p []string
		for _, e := range t.E {
			p = append(p, e.Src(0))
		}
		return t.Name + "<" + strings.Join(p, ", ") + ">"
	}
	return "?" + t.K
}

func (t *Type) String() string { return t.Src(0) }

// Unify binds type variables of pattern pat so that it equals concrete type t.
func Unify(pat, t *Type, m map[string]*Type) bool {
	if pat.K == "tvar" {
		if b, ok := m[pat.Name]; ok {
			return b.Equal(t)
		}
		m[pat.Name] = t
		return true
	}
	if pat.K != t.K || pat.Name != t.Name || len(pat.E) != len(t.E) {
		return false
	}
	for i := range pat.E {
		if !Unify(pat.E[i], t.E[i], m) {
			return false
		}
	}
	return true
}

// Declarations -----------------------------------------------------------------

type Field struct {
	Name string
	T    *Type
}

type RecDecl struct {
	Name    string
	TParams []string
	Fields  []Field
}

type UCase struct {
	Name    string
	Payload *Type // nil: no payload
}

type UnionDecl struct {
	Name    string
	TParams []string
	Cases   []UCase
}

// carriesFunc: some case has a function payload.
func (u *UnionDecl) carriesFunc() bool {
	for _, c := range u.Cases {
		if c.Payload != nil && c.Payload.K == "func" {
			return true
		}
	}
	return false
}

// TypeDecl is a record or a union; And marks continuation of a `type … and …` group.
type TypeDecl struct {
	Rec   *RecDecl
	Union *UnionDecl
	And   bool
}

func (d *TypeDecl) DeclName() string {
	if d.Rec != nil {
		return d.Rec.Name
	}
	return d.Union.Name
}

func (r *RecDecl) Field(name string) *Field {
	for i := range r.Fields {
		if r.Fields[i].Name == name {
			return &r.Fields[i]
		}
	}
	return nil
}

func (u *UnionDecl) Case(name string) *UCase {
	for i := range u.Cases {
		if u.Cases[i].Name == name {
			return &u.Cases[i]
		}
	}
	return nil
}

func tparamMap(params []string, args []*Type) map[string]*Type {
	m := map[string]*Type{}
	for i, p := range params {
		if i < len(args) {
			m[p] = args[i]
		}
	}
	return m
}

// FieldType gives the type of field name of record type t (instantiated).
func (r *RecDecl) FieldType(t *Type, name string) *Type {
	f := r.Field(name)
	if f == nil {
		panic(fmt.Sprintf("no field %s in %s", name, r.Name))
	}
	return f.T.Subst(tparamMap(r.TParams, t.E))
}

// PayloadType gives the payload type of case c for union type t (instantiated); nil if none.
func (u *UnionDecl) PayloadType(t *Type, c string) *Type {
	uc := u.Case(c)
	if uc == nil {
		panic(fmt.Sprintf("no case %s in %s", c, u.Name))
	}
	if uc.Payload == nil {
		return nil
	}
	return uc.Payload.Subst(tparamMap(u.TParams, t.E))
}
