// Independent list model for pkg/slice, written from the F# List module
// documentation (the specification pkg/slice cites), with plain index loops.
// Nothing here imports or imitates pkg/slice.
package listmodel

func MLength[T any](s []T) int {
	n := 0
	for range s {
		n++
	}
	return n
}

func MItem[T any](i int, s []T) T { return s[i] }
func MHead[T any](s []T) T        { return s[0] }
func MLast[T any](s []T) T        { return s[MLength(s)-1] }

func MTail[T any](s []T) []T {
	out := make([]T, 0)
	for i := 1; i < MLength(s); i++ {
		out = append(out, s[i])
	}
	return out
}

func MPopLast[T any](s []T) []T {
	out := make([]T, 0)
	for i := 0; i+1 < MLength(s); i++ {
		out = append(out, s[i])
	}
	return out
}

func MTake[T any](n int, s []T) []T {
	out := make([]T, 0)
	for i := 0; i < n; i++ {
		out = append(out, s[i])
	}
	return out
}

func MSkip[T any](n int, s []T) []T {
	out := make([]T, 0)
	for i := n; i < MLength(s); i++ {
		out = append(out, s[i])
	}
	return out
}

func MPushHead[T any](e T, s []T) []T {
	out := []T{e}
	for i := 0; i < MLength(s); i++ {
		out = append(out, s[i])
	}
	return out
}

func MPushLast[T any](e T, s []T) []T {
	out := make([]T, 0)
	for i := 0; i < MLength(s); i++ {
		out = append(out, s[i])
	}
	return append(out, e)
}

func MMap[T, U any](f func(T) U, s []T) []U {
	out := make([]U, 0)
	for i := 0; i < MLength(s); i++ {
		out = append(out, f(s[i]))
	}
	return out
}

func MMapi[T, U any](f func(int, T) U, s []T) []U {
	out := make([]U, 0)
	for i := 0; i < MLength(s); i++ {
		out = append(out, f(i, s[i]))
	}
	return out
}

func MFilter[T any](p func(T) bool, s []T) []T {
	out := make([]T, 0)
	for i := 0; i < MLength(s); i++ {
		if p(s[i]) {
			out = append(out, s[i])
		}
	}
	return out
}

func MAppend[T any](a, b []T) []T {
	out := make([]T, 0)
	for i := 0; i < MLength(a); i++ {
		out = append(out, a[i])
	}
	for i := 0; i < MLength(b); i++ {
		out = append(out, b[i])
	}
	return out
}

func MConcat[T any](ss [][]T) []T {
	out := make([]T, 0)
	for i := 0; i < len(ss); i++ {
		out = MAppend(out, ss[i])
	}
	return out
}

func MCollect[T, U any](f func(T) []U, s []T) []U {
	out := make([]U, 0)
	for i := 0; i < MLength(s); i++ {
		out = MAppend(out, f(s[i]))
	}
	return out
}

type Pair[T, U any] struct {
	A T
	B U
}

func MZip[T, U any](a []T, b []U) []Pair[T, U] {
	out := make([]Pair[T, U], 0)
	for i := 0; i < MLength(a); i++ {
		out = append(out, Pair[T, U]{a[i], b[i]})
	}
	return out
}

func MFold[T, S any](f func(S, T) S, init S, s []T) S {
	acc := init
	for i := 0; i < MLength(s); i++ {
		acc = f(acc, s[i])
	}
	return acc
}

// MScan models Forall/Forany/TryFind: the predicate is applied left to right
// and no further element is tested once the answer is known. It returns the
// index of the deciding element (or -1) and the number of predicate calls.
func MScan[T any](p func(T) bool, s []T, stopOn bool) (idx int, calls int) {
	for i := 0; i < MLength(s); i++ {
		calls++
		if p(s[i]) == stopOn {
			return i, calls
		}
	}
	return -1, calls
}

func MDistinct[T comparable](s []T) []T {
	out := make([]T, 0)
	for i := 0; i < MLength(s); i++ {
		seen := false
		for j := 0; j < len(out); j++ {
			if out[j] == s[i] {
				seen = true
			}
		}
		if !seen {
			out = append(out, s[i])
		}
	}
	return out
}

// IsPermutation: same multiset.
func IsPermutation[T comparable](a, b []T) bool {
	if MLength(a) != MLength(b) {
		return false
	}
	used := make([]bool, len(b))
	for i := range a {
		found := false
		for j := range b {
			if !used[j] && a[i] == b[j] {
				used[j] = true
				found = true
				break
			}
		}
		if !found {
			return false
		}
	}
	return true
}

func EqSlice[T comparable](a, b []T) bool {
	if MLength(a) != MLength(b) {
		return false
	}
	for i := range a {
		if a[i] != b[i] {
			return false
		}
	}
	return true
}
