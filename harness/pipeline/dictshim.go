package pipeline

import (
	"encoding/json"
	"fmt"
	"os"
	"path/filepath"
	"strings"
)

// DictShim derives, from the current pkg/dict/dict.go of the snapshot, a
// replacement file whose Keys / Values / KVs enumerate the entries in an order
// selected by the environment variable VERIF_DICT_ORDER:
//
//	(unset) | natural   the original functions (Go's random map order)
//	sorted              ascending by fmt.Sprint(key)
//	reverse             descending
//	rotate:<r>          sorted, rotated left by r
//	shuffle:<seed>      sorted, then a deterministic shuffle
//	indep:<seed>        every single enumeration (each call of Keys, Values or KVs) gets its own
//	                    shuffle, as two range loops over one Go map may: Keys d and Values d need
//	                    not correspond position by position
//
// It returns the path of an overlay file for `go build -overlay`.
func DictShim(snapshot, scratch string) (string, error) {
	orig := filepath.Join(snapshot, "pkg", "dict", "dict.go")
	b, err := os.ReadFile(orig)
	if err != nil {
		return "", err
	}
	s := string(b)
	for _, r := range [][2]string{{"func KVs[", "func kvsOrig["}, {"func Keys[", "func keysOrig["}, {"func Values[", "func valuesOrig["}} {
		if strings.Count(s, r[0]) != 1 {
			return "", fmt.Errorf("dict.go: expected exactly one %q", r[0])
		}
		s = strings.Replace(s, r[0], r[1], 1)
	}
	// the package clause is followed by our own import declaration
	i := strings.Index(s, "package dict")
	if i < 0 {
		return "", fmt.Errorf("dict.go: no package clause")
	}
	j := i + len("package dict")
	s = s[:j] + "\n\nimport (\n\tveriffmt \"fmt\"\n\tverifos \"os\"\n\tverifsort \"sort\"\n\tverifstrconv \"strconv\"\n\tverifstrings \"strings\"\n)\n" + s[j:]
	s += `

// ---- verification shim (build-time overlay, never part of the repository) ----

func verifMode() string { return verifos.Getenv("VERIF_DICT_ORDER") }

var verifCalls uint64

func verifPermute[T any](in []T) []T {
	mode := verifMode()
	n := len(in)
	out := make([]T, n)
	copy(out, in)
	switch {
	case mode == "sorted":
	case mode == "reverse":
		for i := range out {
			out[i] = in[n-1-i]
		}
	case verifstrings.HasPrefix(mode, "rotate:"):
		r, _ := verifstrconv.Atoi(mode[len("rotate:"):])
		for i := range out {
			out[i] = in[(i+r)%max(n, 1)]
		}
	case verifstrings.HasPrefix(mode, "shuffle:"), verifstrings.HasPrefix(mode, "indep:"):
		seed, _ := verifstrconv.ParseUint(mode[verifstrings.IndexByte(mode, ':')+1:], 10, 64)
		if verifstrings.HasPrefix(mode, "indep:") {
			verifCalls++
			seed ^= verifCalls * 0x9E3779B97F4A7C15
		}
		x := seed*6364136223846793005 + 1442695040888963407
		for i := n - 1; i > 0; i-- {
			x ^= x << 13
			x ^= x >> 7
			x ^= x << 17
			j := int(x % uint64(i+1))
			out[i], out[j] = out[j], out[i]
		}
	}
	return out
}

func KVs[K comparable, V any](d Dict[K, V]) []frt.Tuple2[K, V] {
	res := kvsOrig(d)
	if m := verifMode(); m == "" || m == "natural" {
		return res
	}
	verifsort.SliceStable(res, func(i, j int) bool { return veriffmt.Sprint(res[i].E0) < veriffmt.Sprint(res[j].E0) })
	return verifPermute(res)
}

func Keys[K comparable, V any](d Dict[K, V]) []K {
	if m := verifMode(); m == "" || m == "natural" {
		return keysOrig(d)
	}
	var res []K
	for _, kv := range KVs(d) {
		res = append(res, kv.E0)
	}
	return res
}

func Values[K comparable, V any](d Dict[K, V]) []V {
	if m := verifMode(); m == "" || m == "natural" {
		return valuesOrig(d)
	}
	var res []V
	for _, kv := range KVs(d) {
		res = append(res, kv.E1)
	}
	return res
}
`
	shim := filepath.Join(scratch, "dict_shim.go")
	if err := os.WriteFile(shim, []byte(s), 0o644); err != nil {
		return "", err
	}
	ov := map[string]map[string]string{"Replace": {orig: shim}}
	ob, _ := json.Marshal(ov)
	ovPath := filepath.Join(scratch, "overlay.json")
	if err := os.WriteFile(ovPath, ob, 0o644); err != nil {
		return "", err
	}
	return ovPath, nil
}
