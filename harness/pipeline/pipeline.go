// Package pipeline holds the process plumbing shared by the orchestrator and
// the property packages: running child processes under a wall-clock limit and
// an address-space limit, snapshotting /repo's working tree, building the
// tools from the snapshot, and compiling/running emitted Go in a scratch
// module that points at the snapshot's pkg/*.
package pipeline

import (
	"bytes"
	"context"
	"errors"
	"fmt"
	"io"
	"os"
	"os/exec"
	"path/filepath"
	"strings"
	"syscall"
	"time"
)

// GoEnv is the environment every go invocation needs in this sealed sandbox.
func GoEnv(extra ...string) []string {
	env := []string{}
	for _, kv := range os.Environ() {
		k := kv
		if i := strings.IndexByte(kv, '='); i >= 0 {
			k = kv[:i]
		}
		switch k {
		case "GOFLAGS", "GOPROXY", "GOSUMDB", "GOTOOLCHAIN", "GOCACHE", "GOWORK":
			continue
		}
		env = append(env, kv)
	}
	env = append(env, "GOFLAGS=-mod=mod", "GOPROXY=off", "GOSUMDB=off", "GOTOOLCHAIN=local", "GOWORK=off")
	hasCache := false
	for _, e := range extra {
		if strings.HasPrefix(e, "GOCACHE=") {
			hasCache = true
		}
	}
	if !hasCache {
		if c := os.Getenv("GOCACHE"); c != "" {
			env = append(env, "GOCACHE="+c)
		}
	}
	return append(env, extra...)
}

type Opts struct {
	Dir     string
	Env     []string // nil = inherit
	Timeout time.Duration
	VLimKB  int64 // ulimit -v in KB, 0 = none
	Stdin   string
}

type Result struct {
	Exit     int // -1 when killed by signal / timeout / not started
	Stdout   string
	Stderr   string
	TimedOut bool
	Signal   string // non-empty when the process died of a signal
	Err      error  // start failure
	Dur      time.Duration
}

func (r Result) Combined() string { return r.Stdout + r.Stderr }

func (r Result) String() string {
	return fmt.Sprintf("exit=%d timeout=%v signal=%q err=%v\nstdout:\n%s\nstderr:\n%s", r.Exit, r.TimedOut, r.Signal, r.Err, clip(r.Stdout, 4000), clip(r.Stderr, 4000))
}

func clip(s string, n int) string {
	if len(s) > n {
		return s[:n] + "…[clipped]"
	}
	return s
}

// Clip shortens s for messages.
func Clip(s string, n int) string { return clip(s, n) }

const maxCapture = 4 << 20

type capWriter struct {
	buf bytes.Buffer
}

func (w *capWriter) Write(p []byte) (int, error) {
	if w.buf.Len() < maxCapture {
		room := maxCapture - w.buf.Len()
		if len(p) <= room {
			w.buf.Write(p)
		} else {
			w.buf.Write(p[:room])
		}
	}
	return len(p), nil
}

// Run starts name with args in its own process group and waits for it.
func Run(o Opts, name string, args ...string) Result {
	var cmd *exec.Cmd
	ctx := context.Background()
	var cancel context.CancelFunc
	if o.Timeout > 0 {
		ctx, cancel = context.WithTimeout(ctx, o.Timeout)
		defer cancel()
	}
	if o.VLimKB > 0 {
		sh := fmt.Sprintf("ulimit -v %d; exec \"$@\"", o.VLimKB)
		cmd = exec.Command("/bin/sh", append([]string{"-c", sh, "sh", name}, args...)...)
	} else {
		cmd = exec.Command(name, args...)
	}
	cmd.Dir = o.Dir
	if o.Env != nil {
		cmd.Env = o.Env
	}
	if o.Stdin != "" {
		cmd.Stdin = strings.NewReader(o.Stdin)
	}
	cmd.SysProcAttr = &syscall.SysProcAttr{Setpgid: true}
	var so, se capWriter
	cmd.Stdout = &so
	cmd.Stderr = &se
	t0 := time.Now()
	if err := cmd.Start(); err != nil {
		return Result{Exit: -1, Err: err}
	}
	done := make(chan error, 1)
	go func() { done <- cmd.Wait() }()
	var werr error
	timedOut := false
	select {
	case werr = <-done:
	case <-ctx.Done():
		timedOut = true
		syscall.Kill(-cmd.Process.Pid, syscall.SIGKILL)
		werr = <-done
	}
	// make sure no stragglers of the group survive
	syscall.Kill(-cmd.Process.Pid, syscall.SIGKILL)
	r := Result{Stdout: so.buf.String(), Stderr: se.buf.String(), TimedOut: timedOut, Dur: time.Since(t0)}
	if werr == nil {
		r.Exit = 0
		return r
	}
	var ee *exec.ExitError
	if errors.As(werr, &ee) {
		ws, ok := ee.Sys().(syscall.WaitStatus)
		if ok && ws.Signaled() {
			r.Exit = -1
			r.Signal = ws.Signal().String()
		} else {
			r.Exit = ee.ExitCode()
		}
		return r
	}
	r.Exit = -1
	r.Err = werr
	return r
}

// Snapshot copies the working tree of repo (tracked files and untracked,
// unignored ones; not .git, not ignored build products) into dst.
func Snapshot(repo, dst string) error {
	r := Run(Opts{Dir: repo, Timeout: 60 * time.Second}, "git", "ls-files", "-co", "--exclude-standard", "-z")
	var files []string
	if r.Exit == 0 && r.Stdout != "" {
		for _, f := range strings.Split(r.Stdout, "\x00") {
			if f != "" {
				files = append(files, f)
			}
		}
	} else {
		// not a git checkout: walk
		filepath.Walk(repo, func(p string, info os.FileInfo, err error) error {
			if err != nil {
				return nil
			}
			rel, _ := filepath.Rel(repo, p)
			if info.IsDir() {
				if info.Name() == ".git" {
					return filepath.SkipDir
				}
				return nil
			}
			// built binaries stay behind (large and executable); the repository's shell recipes are executable too
			if info.Mode().IsRegular() && info.Size() < 4<<20 && (info.Mode()&0o111 == 0 || info.Size() < 256<<10) {
				files = append(files, rel)
			}
			return nil
		})
	}
	for _, f := range files {
		src := filepath.Join(repo, f)
		st, err := os.Lstat(src)
		if err != nil || !st.Mode().IsRegular() {
			continue // deleted in the working tree, or not a plain file
		}
		if err := CopyFile(src, filepath.Join(dst, f), st.Mode().Perm()); err != nil {
			return err
		}
	}
	return nil
}

func CopyFile(src, dst string, perm os.FileMode) error {
	if err := os.MkdirAll(filepath.Dir(dst), 0o755); err != nil {
		return err
	}
	in, err := os.Open(src)
	if err != nil {
		return err
	}
	defer in.Close()
	out, err := os.OpenFile(dst, os.O_CREATE|os.O_WRONLY|os.O_TRUNC, perm)
	if err != nil {
		return err
	}
	if _, err := io.Copy(out, in); err != nil {
		out.Close()
		return err
	}
	return out.Close()
}

// CopyTree copies a directory recursively (regular files only).
func CopyTree(src, dst string) error {
	return filepath.Walk(src, func(p string, info os.FileInfo, err error) error {
		if err != nil {
			return err
		}
		rel, _ := filepath.Rel(src, p)
		if info.IsDir() {
			return os.MkdirAll(filepath.Join(dst, rel), 0o755)
		}
		if !info.Mode().IsRegular() {
			return nil
		}
		return CopyFile(p, filepath.Join(dst, rel), info.Mode().Perm())
	})
}

// BuildTool builds the main package in snapshot/<rel> into out.
func BuildTool(snapshot, rel, out string, extraArgs ...string) Result {
	args := append([]string{"build"}, extraArgs...)
	args = append(args, "-o", out, ".")
	return Run(Opts{Dir: filepath.Join(snapshot, rel), Env: GoEnv(), Timeout: 10 * time.Minute}, "go", args...)
}

// FolangPkgs are the library modules an emitted program may import.
var FolangPkgs = []string{"buf", "dict", "frt", "slice", "strings", "sys"}

// WorkModule creates a Go module in dir whose folang imports resolve to the
// snapshot's pkg/*. Emitted programs live in sub-directories of it.
func WorkModule(dir, snapshot string) error {
	if err := os.MkdirAll(dir, 0o755); err != nil {
		return err
	}
	var b strings.Builder
	b.WriteString("module work\n\ngo 1.23.4\n\nrequire (\n")
	for _, p := range FolangPkgs {
		fmt.Fprintf(&b, "\tgithub.com/karino2/folang/pkg/%s v0.0.0\n", p)
	}
	b.WriteString(")\n\n")
	for _, p := range FolangPkgs {
		fmt.Fprintf(&b, "replace github.com/karino2/folang/pkg/%s => %s\n", p, filepath.Join(snapshot, "pkg", p))
	}
	if err := os.WriteFile(filepath.Join(dir, "go.mod"), []byte(b.String()), 0o644); err != nil {
		return err
	}
	sum, err := os.ReadFile(filepath.Join(snapshot, "fc", "go.sum"))
	if err != nil {
		sum, err = os.ReadFile(filepath.Join(snapshot, "samples", "go.sum"))
		if err != nil {
			return err
		}
	}
	return os.WriteFile(filepath.Join(dir, "go.sum"), sum, 0o644)
}

// FCLimits are the limits every fc / tinyfo / emitted-program run gets.
const (
	ToolVLimKB = 1 << 20 // 1 GB
)

// RunFC runs the transpiler binary in dir on args (pkg_all.foi is not added
// automatically).
func RunFC(fc, dir string, timeout time.Duration, args ...string) Result {
	if timeout == 0 {
		timeout = 60 * time.Second
	}
	return Run(Opts{Dir: dir, Timeout: timeout, VLimKB: ToolVLimKB, Env: append(os.Environ(), "GOTRACEBACK=single")}, fc, args...)
}

// RunFCEnv is RunFC with extra environment variables.
func RunFCEnv(fc, dir string, timeout time.Duration, extraEnv []string, args ...string) Result {
	if timeout == 0 {
		timeout = 60 * time.Second
	}
	env := append(os.Environ(), "GOTRACEBACK=single")
	env = append(env, extraEnv...)
	return Run(Opts{Dir: dir, Timeout: timeout, VLimKB: ToolVLimKB, Env: env}, fc, args...)
}

// GoBuild builds packages (relative to the work module dir) with the private
// cache; out is a file (one package) or a directory (several).
func GoBuild(workdir, gocache, out string, pkgs ...string) Result {
	args := []string{"build"}
	if out != "" {
		args = append(args, "-o", out)
	}
	args = append(args, pkgs...)
	extra := []string{}
	if gocache != "" {
		extra = append(extra, "GOCACHE="+gocache)
	}
	return Run(Opts{Dir: workdir, Env: GoEnv(extra...), Timeout: 10 * time.Minute}, "go", args...)
}

// GoVet type-checks packages without linking (go build with no -o on
// non-main or several packages discards the result; for main packages we use
// `go vet`-free `go build -o /dev/null`).
func GoTypeCheck(workdir, gocache string, pkgs ...string) Result {
	args := append([]string{"build", "-o", os.DevNull}, pkgs...)
	if len(pkgs) > 1 {
		args = append([]string{"build"}, pkgs...) // several packages: results are discarded
	}
	extra := []string{}
	if gocache != "" {
		extra = append(extra, "GOCACHE="+gocache)
	}
	return Run(Opts{Dir: workdir, Env: GoEnv(extra...), Timeout: 10 * time.Minute}, "go", args...)
}

// RunProg runs an emitted program.
func RunProg(bin, dir string, timeout time.Duration, args ...string) Result {
	if timeout == 0 {
		timeout = 30 * time.Second
	}
	return Run(Opts{Dir: dir, Timeout: timeout, VLimKB: ToolVLimKB * 2, Env: append(os.Environ(), "GOTRACEBACK=single")}, bin, args...)
}

// Gofmt formats the given files in place.
func Gofmt(files ...string) Result {
	return Run(Opts{Timeout: 2 * time.Minute, Env: GoEnv()}, "gofmt", append([]string{"-w"}, files...)...)
}
