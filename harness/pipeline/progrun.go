package pipeline

import (
	"fmt"
	"os"
	"path/filepath"
	"strings"
	"sync"
	"time"
)

// Runner transpiles, builds and runs Folang programs inside one scratch work
// module (see WorkModule). One Runner per test process.
type Runner struct {
	Work    string // module directory
	GoCache string
	Repo    string // snapshot (for pkg_all.foi)
	seq     int
	mu      sync.Mutex
	once    sync.Once
	initErr error
}

func NewRunner(scratch, repo, gocache string) *Runner {
	return &Runner{Work: filepath.Join(scratch, "work"), GoCache: gocache, Repo: repo}
}

func (r *Runner) init() error {
	r.once.Do(func() {
		r.initErr = WorkModule(r.Work, r.Repo)
		if r.GoCache == "" {
			r.GoCache = filepath.Join(filepath.Dir(r.Work), "gocache")
			os.MkdirAll(r.GoCache, 0o755)
		}
	})
	return r.initErr
}

// ProgResult is what happened to one program.
type ProgResult struct {
	Stage  string // fc | gobuild | run | ok
	Exit   int
	Output string // fc output / compiler errors / program stdout
	Stderr string
	GoSrc  map[string]string
}

// SrcFile is one source file of a program; .fo files are transpiled in order.
type SrcFile struct {
	Name    string
	Content string
}

// RunProgram transpiles files with the given transpiler binary (tool = fc or
// tinyfo; foiArgs are prepended, e.g. the snapshot's pkg_all.foi), builds the
// package together with extra Go files, runs it and returns its stdout.
func (r *Runner) RunProgram(tool string, foiArgs []string, files []SrcFile, link bool) (ProgResult, error) {
	if err := r.init(); err != nil {
		return ProgResult{}, err
	}
	r.mu.Lock()
	r.seq++
	name := fmt.Sprintf("p%d", r.seq%16)
	r.mu.Unlock()
	dir := filepath.Join(r.Work, name)
	os.RemoveAll(dir)
	if err := os.MkdirAll(dir, 0o755); err != nil {
		return ProgResult{}, err
	}
	args := append([]string{}, foiArgs...)
	for _, f := range files {
		// @PKG@ stands for the import path of the program's own directory
		content := strings.ReplaceAll(f.Content, "@PKG@", "work/"+name)
		os.MkdirAll(filepath.Dir(filepath.Join(dir, f.Name)), 0o755)
		if err := os.WriteFile(filepath.Join(dir, f.Name), []byte(content), 0o644); err != nil {
			return ProgResult{}, err
		}
		if strings.Contains(f.Name, "/") {
			continue // a file of a sibling package: not an argument of the transpiler
		}
		if strings.HasSuffix(f.Name, ".fo") || strings.HasSuffix(f.Name, ".foi") {
			args = append(args, f.Name)
		}
	}
	fr := RunFC(tool, dir, 60*time.Second, args...)
	if fr.TimedOut || fr.Signal != "" || fr.Err != nil {
		return ProgResult{Stage: "fc", Exit: -1, Output: fr.String()}, nil
	}
	if fr.Exit != 0 {
		return ProgResult{Stage: "fc", Exit: fr.Exit, Output: fr.Combined()}, nil
	}
	res := ProgResult{GoSrc: map[string]string{}}
	gens, _ := filepath.Glob(filepath.Join(dir, "gen_*.go"))
	for _, gf := range gens {
		b, _ := os.ReadFile(gf)
		res.GoSrc[filepath.Base(gf)] = string(b)
	}
	bin := filepath.Join(dir, "prog.bin")
	var br Result
	if link {
		br = GoBuild(r.Work, r.GoCache, bin, "./"+name)
	} else {
		br = GoTypeCheck(r.Work, r.GoCache, "./"+name)
	}
	if br.TimedOut || br.Err != nil {
		return res, fmt.Errorf("go build did not finish: %s", br.String())
	}
	if br.Exit != 0 {
		res.Stage, res.Exit, res.Output = "gobuild", br.Exit, br.Combined()
		return res, nil
	}
	if !link {
		res.Stage = "ok"
		return res, nil
	}
	rr := RunProg(bin, dir, 30*time.Second)
	if rr.Err != nil {
		return res, fmt.Errorf("cannot run the program: %v", rr.Err)
	}
	res.Stage, res.Exit, res.Output, res.Stderr = "run", rr.Exit, rr.Stdout, rr.Stderr
	if rr.TimedOut {
		res.Exit = -2
	}
	if rr.Exit == 0 && !rr.TimedOut && rr.Signal == "" {
		res.Stage = "ok"
	}
	return res, nil
}
