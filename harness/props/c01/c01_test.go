// C01: transpiled programs behave exactly as their Folang source specifies.
package c01

import (
	"encoding/json"
	"fmt"
	"os"
	"path/filepath"
	"regexp"
	"sort"
	"strings"
	"testing"

	"pgregory.net/rapid"

	"verif/harness/lang"
	"verif/harness/pipeline"
	"verif/harness/vt"
)

// Case is the concrete, replayable input: source text and the output the
// reference semantics give for it.
type Case struct {
	Src  string `json:"src"`
	Want string `json:"want"`
}

var runner *pipeline.Runner

func getRunner(e *vt.Env) *pipeline.Runner {
	if runner == nil {
		runner = pipeline.NewRunner(e.Scratch, e.Repo, e.GoCache)
	}
	return runner
}

func checkWith(e *vt.Env, fc string, c Case) error {
	r := getRunner(e)
	res, err := r.RunProgram(fc, []string{filepath.Join(e.Repo, "pkg", "pkg_all.foi")}, []pipeline.SrcFile{{Name: "prog.fo", Content: c.Src}}, true)
	if err != nil {
		return fmt.Errorf("harness: %v", err)
	}
	switch res.Stage {
	case "fc":
		return fmt.Errorf("fc rejects a program of the documented subset (exit %d):\n%s\n--- source\n%s", res.Exit, pipeline.Clip(res.Output, 800), c.Src)
	case "gobuild":
		return fmt.Errorf("the emitted Go does not compile:\n%s\n--- source\n%s\n--- emitted\n%s", pipeline.Clip(res.Output, 1200), c.Src, pipeline.Clip(res.GoSrc["gen_prog.go"], 6000))
	case "run":
		return fmt.Errorf("the program fails at run time (exit %d):\n%s\n--- stdout\n%s\n--- source\n%s", res.Exit, pipeline.Clip(res.Stderr, 800), pipeline.Clip(res.Output, 800), c.Src)
	}
	if res.Output != c.Want {
		return fmt.Errorf("output differs from the source semantics\n--- want\n%s--- got\n%s--- source\n%s\n--- emitted\n%s", c.Want, res.Output, c.Src, pipeline.Clip(res.GoSrc["gen_prog.go"], 6000))
	}
	return nil
}

func check(c Case) error {
	e := vt.Get()
	if e.FC == "" {
		return fmt.Errorf("needs VERIF_FC")
	}
	if err := checkWith(e, e.FC, c); err != nil {
		return err
	}
	if e.FCB != "" {
		if err := checkWith(e, e.FCB, c); err != nil {
			return fmt.Errorf("(compiler regenerated from fc/*.fo) %v", err)
		}
	}
	return nil
}

func nontrivial(labels map[string]bool, want string) bool {
	probe := strings.Contains(want, "\nt") || strings.HasPrefix(want, "t")
	feature := false
	for l := range labels {
		for _, k := range []string{"partial application", "closes over", "union match", "string match", "if as a value", "pipe", "lambda"} {
			if strings.Contains(l, k) {
				feature = true
			}
		}
	}
	return probe && feature
}

func TestPrograms(t *testing.T) {
	e := vt.Get()
	defer e.Flush()
	if e.FC == "" {
		t.Skip("needs the orchestrator (VERIF_FC)")
	}
	rapid.Check(t, func(rt *rapid.T) {
		g := lang.NewGen(rt, lang.Full)
		pr := g.GenProgram()
		src := lang.Print(pr, lang.Canonical{})
		want, err := lang.Run(pr)
		if err != nil {
			// the generator must only produce programs the reference semantics define
			os.WriteFile(filepath.Join(e.Scratch, "harness_bug.txt"), []byte(err.Error()+"\n"+src), 0o644) // a harness defect is inconclusive, never a violation
			rt.Fatalf("harness bug: reference evaluator: %v\n%s", err, src)
		}
		c := Case{Src: src, Want: want}
		var labels []string
		for l := range g.Labels {
			labels = append(labels, l)
		}
		sort.Strings(labels)
		e.Record("TestPrograms", vt.Hash(src), nontrivial(g.Labels, want), labels, func() any {
			return map[string]any{"source": src, "expected_stdout": want, "steered": g.Steered}
		})
		e.Check(rt, "program", c, func() error { return check(c) })
	})
}

// TestCorpus runs the hand-kept boundary programs (corpus/seeds/*.fo with a
// sibling .out holding the expected stdout, derived by hand from the source).
func TestCorpus(t *testing.T) {
	e := vt.Get()
	defer e.Flush()
	if e.FC == "" {
		t.Skip("needs the orchestrator (VERIF_FC)")
	}
	ms, _ := filepath.Glob(filepath.Join(e.VerifDir, "corpus", "seeds", "*.fo"))
	sort.Strings(ms)
	for _, m := range ms {
		out, err := os.ReadFile(strings.TrimSuffix(m, ".fo") + ".out")
		if err != nil {
			continue
		}
		src, _ := os.ReadFile(m)
		c := Case{Src: string(src), Want: string(out)}
		e.Record("TestCorpus", vt.Hash(string(src)), true, []string{"corpus:" + filepath.Base(m)}, nil)
		e.Check(t, "program", c, func() error { return check(c) })
	}
}

func TestReplay(t *testing.T) {
	e := vt.Get()
	e.RunReplay(t, map[string]func(json.RawMessage) error{
		"program": vt.Handler(check),
	})
}

// TestSurvey (development aid, VERIF_SURVEY=N): runs N generated programs
// without stopping at failures and groups the failures by their first line.
func TestSurvey(t *testing.T) {
	n := 0
	fmt.Sscan(os.Getenv("VERIF_SURVEY"), &n)
	if n == 0 {
		t.Skip()
	}
	e := vt.Get()
	cats := map[string][]string{}
	count := 0
	rapid.Check(t, func(rt *rapid.T) {
		g := lang.NewGen(rt, lang.Full)
		pr := g.GenProgram()
		src := lang.Print(pr, lang.Canonical{})
		want, err := lang.Run(pr)
		count++
		key := ""
		msg := ""
		if err != nil {
			key, msg = "EVAL: "+err.Error(), src
		} else if cerr := check(Case{Src: src, Want: want}); cerr != nil {
			lines := strings.Split(cerr.Error(), "\n")
			key = lines[0]
			for _, l := range lines[1:] {
				if strings.HasPrefix(l, "transpile:") || strings.HasPrefix(l, "# work") {
					continue
				}
				key += " | " + regexpNum.ReplaceAllString(l, "N")
				break
			}
			msg = cerr.Error()
		}
		if key != "" {
			cats[key] = append(cats[key], msg)
		}
	})
	out := filepath.Join(e.Scratch, "survey")
	os.MkdirAll(out, 0o755)
	var ks []string
	for k := range cats {
		ks = append(ks, k)
	}
	sort.Slice(ks, func(i, j int) bool { return len(cats[ks[i]]) > len(cats[ks[j]]) })
	fmt.Printf("SURVEY: %d programs, %d failure categories; details in %s\n", count, len(ks), out)
	for i, k := range ks {
		// keep the shortest example
		best := cats[k][0]
		for _, m := range cats[k] {
			if len(m) < len(best) {
				best = m
			}
		}
		os.WriteFile(filepath.Join(out, fmt.Sprintf("cat%02d.txt", i)), []byte(k+"\n\n"+best), 0o644)
		fmt.Printf("%4d  cat%02d  %s\n", len(cats[k]), i, pipeline.Clip(k, 200))
	}
}

var regexpNum = regexp.MustCompile(`[0-9]+`)

// TestKnown re-runs the reproducers of the recorded findings and prints a
// KNOWN-FINDING line for each that still fails.
func TestKnown(t *testing.T) {
	e := vt.Get()
	defer e.Flush()
	if e.FC == "" {
		t.Skip("needs the orchestrator (VERIF_FC)")
	}
	for _, k := range e.KnownFor("C01") {
		b, err := os.ReadFile(filepath.Join(e.VerifDir, k.Reproducer))
		if err != nil {
			t.Fatalf("known finding %s: reproducer missing: %v", k.ID, err)
		}
		var fc vt.FailCase
		if err := json.Unmarshal(b, &fc); err != nil {
			t.Fatalf("known finding %s: %v", k.ID, err)
		}
		var c Case
		json.Unmarshal(fc.Case, &c)
		if err := check(c); err != nil {
			vt.PrintKnown(k)
		} else {
			t.Logf("known finding %s no longer reproduces", k.ID)
		}
		e.Record("TestKnown", vt.Hash(c.Src), true, []string{"known finding " + k.ID}, nil)
	}
}
