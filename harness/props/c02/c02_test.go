// C02: inferred Go signatures are the principal Folang types, mapped as documented.
package c02

import (
	"encoding/json"
	"fmt"
	"go/ast"
	"go/parser"
	"go/token"
	"go/types"
	"os"
	"path/filepath"
	"sort"
	"strings"
	"testing"
	"time"

	"pgregory.net/rapid"

	"verif/harness/lang"
	"verif/harness/pipeline"
	"verif/harness/vt"
)

// --- library schemes (written from pkg_all.foi's documented signatures) ------------------------

func tv(n string) *lang.Type                      { return lang.TVar(n) }
func fn(ps []*lang.Type, r *lang.Type) *lang.Type { return lang.TFunc(ps, r) }

var (
	a, b   = tv("a"), tv("b")
	sl     = lang.TSlice
	ts     = func(x ...*lang.Type) []*lang.Type { return x }
	libFns = map[string]*Scheme{
		"frt.Sprintf1":       {TParams: []string{"a"}, Params: ts(lang.TString, a), Ret: lang.TString},
		"frt.Fst":            {TParams: []string{"a", "b"}, Params: ts(lang.TTuple(a, b)), Ret: a},
		"frt.Snd":            {TParams: []string{"a", "b"}, Params: ts(lang.TTuple(a, b)), Ret: b},
		"slice.Length":       {TParams: []string{"a"}, Params: ts(sl(a)), Ret: lang.TInt},
		"slice.IsEmpty":      {TParams: []string{"a"}, Params: ts(sl(a)), Ret: lang.TBool},
		"slice.Head":         {TParams: []string{"a"}, Params: ts(sl(a)), Ret: a},
		"slice.Tail":         {TParams: []string{"a"}, Params: ts(sl(a)), Ret: sl(a)},
		"slice.Take":         {TParams: []string{"a"}, Params: ts(lang.TInt, sl(a)), Ret: sl(a)},
		"slice.Map":          {TParams: []string{"a", "b"}, Params: ts(fn(ts(a), b), sl(a)), Ret: sl(b)},
		"slice.Filter":       {TParams: []string{"a"}, Params: ts(fn(ts(a), lang.TBool), sl(a)), Ret: sl(a)},
		"slice.Fold":         {TParams: []string{"a", "b"}, Params: ts(fn(ts(b, a), b), b, sl(a)), Ret: b},
		"slice.PushLast":     {TParams: []string{"a"}, Params: ts(a, sl(a)), Ret: sl(a)},
		"slice.Append":       {TParams: []string{"a"}, Params: ts(sl(a), sl(a)), Ret: sl(a)},
		"slice.Zip":          {TParams: []string{"a", "b"}, Params: ts(sl(a), sl(b)), Ret: sl(lang.TTuple(a, b))},
		"slice.Forall":       {TParams: []string{"a"}, Params: ts(fn(ts(a), lang.TBool), sl(a)), Ret: lang.TBool},
		"slice.TryFind":      {TParams: []string{"a"}, Params: ts(fn(ts(a), lang.TBool), sl(a)), Ret: lang.TTuple(a, lang.TBool)},
		"dict.Keys":          {TParams: []string{"a", "b"}, Params: ts(lang.TDict(a, b)), Ret: sl(a)},
		"dict.Values":        {TParams: []string{"a", "b"}, Params: ts(lang.TDict(a, b)), Ret: sl(b)},
		"dict.ContainsKey":   {TParams: []string{"a", "b"}, Params: ts(lang.TDict(a, b), a), Ret: lang.TBool},
		"dict.TryFind":       {TParams: []string{"a", "b"}, Params: ts(lang.TDict(a, b), a), Ret: lang.TTuple(b, lang.TBool)},
		"strings.Length":     {Params: ts(lang.TString), Ret: lang.TInt},
		"strings.Concat":     {Params: ts(lang.TString, sl(lang.TString)), Ret: lang.TString},
		"strings.AppendTail": {Params: ts(lang.TString, lang.TString), Ret: lang.TString},
		"strings.HasPrefix":  {Params: ts(lang.TString, lang.TString), Ret: lang.TBool},
		"strings.Split":      {Params: ts(lang.TString, lang.TString), Ret: sl(lang.TString)},
	}
)

// shared declarations of every generated program
var (
	recP  = &lang.RecDecl{Name: "RecP", Fields: []lang.Field{{Name: "PX", T: lang.TInt}, {Name: "PY", T: lang.TString}}}
	gbox  = &lang.RecDecl{Name: "GBox", TParams: []string{"T"}, Fields: []lang.Field{{Name: "BV", T: tv("T")}, {Name: "BN", T: lang.TInt}}}
	uniQ  = &lang.UnionDecl{Name: "UniQ", Cases: []lang.UCase{{Name: "QA", Payload: lang.TInt}, {Name: "QB", Payload: lang.TString}, {Name: "QC"}}}
	optG  = &lang.UnionDecl{Name: "OptG", TParams: []string{"T"}, Cases: []lang.UCase{{Name: "GSome", Payload: tv("T")}, {Name: "GNone"}}}
	gpair = &lang.RecDecl{Name: "GPair", TParams: []string{"A", "B"}, Fields: []lang.Field{{Name: "PA", T: tv("A")}, {Name: "PB", T: tv("B")}}}
	recH = &lang.RecDecl{Name: "RecH", Fields: []lang.Field{{Name: "HP", T: lang.TTuple(lang.TInt, lang.TString)}, {Name: "HS", T: lang.TSlice(lang.TInt)},
		{Name: "HN", T: lang.TInt}, {Name: "HT", T: lang.TString}}}
	decls = []*lang.TopItem{
		{Types: []*lang.TypeDecl{{Rec: recP}}}, {Types: []*lang.TypeDecl{{Rec: gbox}}}, {Types: []*lang.TypeDecl{{Rec: recH}}}, {Types: []*lang.TypeDecl{{Rec: gpair}}},
		{Types: []*lang.TypeDecl{{Union: uniQ}}}, {Types: []*lang.TypeDecl{{Union: optG}}},
	}
)

func newInferer(user map[string]*Scheme) *inferer {
	in := &inferer{funcs: map[string]*Scheme{}, recs: map[string]*lang.RecDecl{"RecP": recP, "GBox": gbox, "RecH": recH, "GPair": gpair},
		unions: map[string]*lang.UnionDecl{"UniQ": uniQ, "OptG": optG}, ctors: map[string]*lang.UnionDecl{}}
	for k, v := range libFns {
		in.funcs[k] = v
	}
	for k, v := range user {
		in.funcs[k] = v
	}
	for _, u := range in.unions {
		for _, c := range u.Cases {
			in.ctors[c.Name] = u
		}
	}
	return in
}

// --- generator of the inference profile ------------------------------------------------------------

type gvar struct {
	name  string
	t     *lang.Type // intended (generation-time) type
	known bool       // its type is fixed where it is written (annotated, or result of a typing construct)
	used  bool
	fn    bool // function-typed parameter (applied at most once)
}

type fgen struct {
	rt     *rapid.T
	vars   []*gvar
	stmts  []*lang.Stmt
	ctr    *int
	labels map[string]bool
	user   []*userFn
}

type userFn struct {
	name   string
	params []*lang.Type // intended
	ret    *lang.Type
}

func (g *fgen) n(max int, label string) int { return rapid.IntRange(0, max).Draw(g.rt, label) }

func (g *fgen) fresh(p string) string {
	*g.ctr++
	return fmt.Sprintf("%s%d", p, *g.ctr)
}

func (g *fgen) pick(pred func(*gvar) bool, label string) *gvar {
	var c []*gvar
	for _, v := range g.vars {
		if pred(v) {
			c = append(c, v)
		}
	}
	if len(c) == 0 {
		return nil
	}
	// prefer unused ones
	var un []*gvar
	for _, v := range c {
		if !v.used {
			un = append(un, v)
		}
	}
	if len(un) > 0 && g.n(2, label+"PreferUnused") != 0 {
		c = un
	}
	return c[g.n(len(c)-1, label)]
}

func (g *fgen) use(v *gvar) *lang.Expr {
	v.used = true
	return lang.Var(v.name, v.t)
}

func (g *fgen) bind(e *lang.Expr, t *lang.Type, known bool) *gvar {
	name := g.fresh("v")
	g.stmts = append(g.stmts, lang.Let(name, e))
	v := &gvar{name: name, t: t, known: known}
	g.vars = append(g.vars, v)
	return v
}

// lamParam names a lambda parameter: usually fresh, one time in three the name of a variable or parameter of
// the enclosing function that is not v itself (the lambda parameter shadows it inside the lambda only; the
// outer variable keeps its own type and is typically used again afterwards, in the result tuple).
func (g *fgen) lamParam(avoid *gvar) string {
	if g.n(2, "shadowingLambdaParam") == 0 {
		var c []*gvar
		for _, v := range g.vars {
			if v != avoid && !v.fn {
				c = append(c, v)
			}
		}
		if len(c) > 0 {
			g.labels["lambda parameter named like an outer variable"] = true
			return c[g.n(len(c)-1, "shadowedVar")].name
		}
	}
	return g.fresh("x")
}

func ofType(t *lang.Type) func(*gvar) bool {
	return func(v *gvar) bool { return v.t.Equal(t) && !v.fn }
}

func litOf(t *lang.Type, g *fgen) *lang.Expr {
	switch t.K {
	case "int":
		return lang.Int(int64(g.n(9, "lit")))
	case "string":
		return lang.Str([]string{"a", "bc", ""}[g.n(2, "slit")])
	case "bool":
		return lang.Bool(g.n(1, "blit") == 1)
	}
	return nil
}

func lam(params []lang.Param, body *lang.Expr, t *lang.Type) *lang.Expr {
	return &lang.Expr{K: "lambda", Params: params, Body: lang.Blk(body), T: t}
}

// step adds one statement; returns false when the drawn producer is not applicable.
func (g *fgen) step() bool {
	I, S, B := lang.TInt, lang.TString, lang.TBool
	switch g.n(21, "producer") {
	case 0: // arithmetic with a typed operand
		v := g.pick(ofType(I), "arithVar")
		if v == nil {
			return false
		}
		op := []string{"+", "-", "*"}[g.n(2, "arithOp")]
		var r *lang.Expr
		if w := g.pick(func(x *gvar) bool { return x.t.Equal(I) && !x.fn && (x.known || v.known) && x != v }, "arithOther"); w != nil && g.n(1, "arithTwoVars") == 0 {
			r = g.use(w)
			g.labels["arithmetic between two variables, one of known type"] = true
		} else {
			r = litOf(I, g)
		}
		g.bind(lang.Bin(op, I, g.use(v), r), I, true)
		g.labels["arithmetic with a typed operand"] = true
	case 1: // comparison
		if g.n(2, "eqTwoVars") == 0 {
			// = / <> between two variables of the same type: unifies them (no typed operand needed, frt.OpEqual is generic)
			v := g.pick(func(x *gvar) bool { return !x.fn }, "eqA")
			if v == nil {
				return false
			}
			w := g.pick(func(x *gvar) bool { return x.t.Equal(v.t) && !x.fn && x != v }, "eqB")
			if w == nil {
				return false
			}
			op := []string{"=", "<>"}[g.n(1, "eqOp2")]
			g.bind(lang.Bin(op, B, g.use(v), g.use(w)), B, true)
			g.labels["= between two variables (unifies their types)"] = true
			return true
		}
		t := []*lang.Type{I, S}[g.n(1, "cmpType")]
		v := g.pick(ofType(t), "cmpVar")
		if v == nil {
			return false
		}
		op := []string{"<", ">", "<=", ">=", "=", "<>"}[g.n(5, "cmpOp")]
		g.bind(lang.Bin(op, B, g.use(v), litOf(t, g)), B, true)
		g.labels["comparison with a typed operand"] = true
	case 2: // string concatenation
		v := g.pick(ofType(S), "catVar")
		if v == nil {
			return false
		}
		g.bind(lang.Bin("+", S, g.use(v), litOf(S, g)), S, true)
	case 3: // monomorphic library call
		switch g.n(3, "monoLib") {
		case 0:
			v := g.pick(ofType(S), "lenVar")
			if v == nil {
				return false
			}
			g.bind(lang.Call("strings.Length", I, g.use(v)), I, true)
		case 1:
			v := g.pick(ofType(S), "prefVar")
			if v == nil {
				return false
			}
			g.bind(lang.Call("strings.HasPrefix", B, lang.Str("a"), g.use(v)), B, true)
		case 2:
			v := g.pick(ofType(sl(S)), "concatVar")
			if v == nil {
				return false
			}
			g.bind(lang.Call("strings.Concat", S, lang.Str(","), g.use(v)), S, true)
		default:
			v := g.pick(ofType(S), "splitVar")
			if v == nil {
				return false
			}
			g.bind(lang.Call("strings.Split", sl(S), lang.Str(","), g.use(v)), sl(S), true)
		}
		g.labels["call of a library function with a concrete signature"] = true
	case 4: // generic library call on a slice
		v := g.pick(func(x *gvar) bool { return x.t.K == "slice" }, "sliceVar")
		if v == nil {
			return false
		}
		et := v.t.Elem()
		switch g.n(3, "sliceLib") {
		case 0:
			g.bind(lang.Call("slice.Length", I, g.use(v)), I, true)
		case 1:
			g.bind(lang.Call("slice.Head", et, g.use(v)), et, v.known)
		case 2:
			g.bind(lang.Call("slice.Tail", v.t, g.use(v)), v.t, v.known)
		default:
			g.bind(lang.Call("slice.Take", v.t, lang.Int(1), g.use(v)), v.t, v.known)
		}
		g.labels["call of a generic library function"] = true
	case 5: // lambda into a typed higher-order function
		v := g.pick(func(x *gvar) bool { return x.t.K == "slice" && (x.t.Elem().Equal(I) || x.t.Elem().Equal(S)) }, "hofVar")
		if v == nil {
			return false
		}
		et := v.t.Elem()
		x := g.lamParam(v)
		xp := []lang.Param{{Name: x, T: et}}
		xv := lang.Var(x, et)
		switch g.n(3, "hofKind") {
		case 0: // the lambda body fixes the element type
			var body *lang.Expr
			if et.Equal(I) {
				body = lang.Bin("+", I, xv, lang.Int(1))
			} else {
				body = lang.Bin("+", S, xv, lang.Str("!"))
			}
			g.bind(lang.Call("slice.Map", v.t, lam(xp, body, fn(ts(et), et)), g.use(v)), v.t, true)
		case 1: // the element type stays open: Map (fun x -> (x, 1))
			rt := lang.TTuple(et, I)
			body := &lang.Expr{K: "tuple", T: rt, Args: []*lang.Expr{xv, lang.Int(1)}}
			g.bind(lang.Call("slice.Map", sl(rt), lam(xp, body, fn(ts(et), rt)), g.use(v)), sl(rt), v.known)
		case 2:
			var body *lang.Expr
			if et.Equal(I) {
				body = lang.Bin(">", B, xv, lang.Int(2))
			} else {
				body = lang.Call("strings.HasPrefix", B, lang.Str("a"), xv)
			}
			g.bind(lang.Call("slice.Filter", v.t, lam(xp, body, fn(ts(et), B)), g.use(v)), v.t, true)
		default:
			if !et.Equal(I) {
				return false
			}
			acc := g.fresh("acc")
			body := lang.Bin("+", I, lang.Var(acc, I), xv)
			f := lam([]lang.Param{{Name: acc, T: I}, {Name: x, T: I}}, body, fn(ts(I, I), I))
			g.bind(lang.Call("slice.Fold", I, f, lang.Int(0), g.use(v)), I, true)
		}
		g.labels["lambda passed to a typed higher-order function"] = true
	case 6: // tuple
		v, w := g.pick(func(x *gvar) bool { return !x.fn }, "tupA"), g.pick(func(x *gvar) bool { return !x.fn }, "tupB")
		if v == nil || w == nil {
			return false
		}
		t := lang.TTuple(v.t, w.t)
		g.bind(&lang.Expr{K: "tuple", T: t, Args: []*lang.Expr{g.use(v), g.use(w)}}, t, v.known && w.known)
		g.labels["tuple construction"] = true
	case 7: // slice literal
		v := g.pick(func(x *gvar) bool { return !x.fn }, "sliceElem")
		if v == nil {
			return false
		}
		t := sl(v.t)
		e := &lang.Expr{K: "slice", T: t, Args: []*lang.Expr{g.use(v)}}
		known := v.known
		if w := g.pick(func(x *gvar) bool { return x.t.Equal(v.t) && !x.fn && x != v }, "sliceElem2"); w != nil && g.n(1, "twoElems") == 0 {
			e.Args = append(e.Args, g.use(w))
			known = known || w.known
		} else if l := litOf(v.t, g); l != nil && g.n(1, "withLit") == 0 {
			e.Args = append(e.Args, l)
			known = true
		}
		g.bind(e, t, known)
		g.labels["slice literal"] = true
	case 8: // destructuring
		v := g.pick(func(x *gvar) bool { return x.t.K == "tuple" && len(x.t.E) == 2 }, "destrVar")
		if v == nil {
			return false
		}
		n1, n2 := g.fresh("d"), g.fresh("d")
		g.stmts = append(g.stmts, &lang.Stmt{K: "letd", Names: []string{n1, n2}, E: g.use(v)})
		g.vars = append(g.vars, &gvar{name: n1, t: v.t.E[0], known: v.known}, &gvar{name: n2, t: v.t.E[1], known: v.known})
		g.labels["destructuring let"] = true
	case 9: // record construction (fixes the field types) and field access on it
		v, w := g.pick(ofType(I), "recX"), g.pick(ofType(S), "recY")
		if v == nil || w == nil {
			return false
		}
		e := &lang.Expr{K: "reclit", Name: "RecP", T: lang.TRec("RecP"), Fields: []lang.FieldInit{{Name: "PX", E: g.use(v)}, {Name: "PY", E: g.use(w)}}}
		if g.n(1, "recOrder") == 0 {
			e.Fields[0], e.Fields[1] = e.Fields[1], e.Fields[0]
		}
		r := g.bind(e, lang.TRec("RecP"), true)
		if g.n(1, "fieldAccess") == 0 {
			g.bind(&lang.Expr{K: "field", Name: "PY", Args: []*lang.Expr{g.use(r)}, T: S}, S, true)
		}
		g.labels["record construction"] = true
	case 10: // generic record
		v := g.pick(func(x *gvar) bool { return !x.fn }, "boxV")
		if v == nil {
			return false
		}
		t := lang.TRec("GBox", v.t)
		e := &lang.Expr{K: "reclit", Name: "GBox", T: t, Fields: []lang.FieldInit{{Name: "BV", E: g.use(v)}, {Name: "BN", E: lang.Int(1)}}}
		g.bind(e, t, v.known)
		g.labels["generic record construction"] = true
	case 11: // union construction
		switch g.n(2, "ctor") {
		case 0:
			v := g.pick(ofType(I), "qa")
			if v == nil {
				return false
			}
			g.bind(lang.Call("QA", lang.TUnion("UniQ"), g.use(v)), lang.TUnion("UniQ"), true)
		case 1:
			v := g.pick(ofType(S), "qb")
			if v == nil {
				return false
			}
			g.bind(lang.Call("QB", lang.TUnion("UniQ"), g.use(v)), lang.TUnion("UniQ"), true)
		default:
			v := g.pick(func(x *gvar) bool { return !x.fn }, "gsome")
			if v == nil {
				return false
			}
			t := lang.TUnion("OptG", v.t)
			g.bind(lang.Call("GSome", t, g.use(v)), t, v.known)
			g.labels["generic union construction"] = true
		}
		g.labels["union construction"] = true
	case 12: // call of an earlier user function
		if len(g.user) == 0 {
			return false
		}
		u := g.user[g.n(len(g.user)-1, "userFn")]
		var args []*lang.Expr
		var picked []*gvar
		for _, pt := range u.params {
			v := g.pick(func(x *gvar) bool { return x.t.Equal(pt) }, "userArg")
			if v == nil {
				return false
			}
			picked = append(picked, v)
		}
		for _, v := range picked {
			args = append(args, g.use(v))
		}
		if len(args) == 0 {
			args = []*lang.Expr{lang.Unit()}
		}
		g.bind(lang.Call(u.name, u.ret, args...), u.ret, true)
		g.labels["call of an earlier user function"] = true
	case 13: // a function-typed parameter applied once
		f := g.pick(func(x *gvar) bool { return x.fn && !x.used }, "fnParam")
		if f == nil {
			return false
		}
		v := g.pick(ofType(f.t.Params()[0]), "fnArg")
		if v == nil {
			return false
		}
		f.used = true
		g.bind(lang.Call(f.name, f.t.Result(), g.use(v)), f.t.Result(), f.known)
		g.labels["function-typed parameter applied once"] = true
	case 14: // pipe
		v := g.pick(ofType(S), "pipeVar")
		if v == nil {
			return false
		}
		g.bind(&lang.Expr{K: "pipe", T: I, Args: []*lang.Expr{g.use(v), lang.Var("strings.Length", fn(ts(S), I))}}, I, true)
		g.labels["pipe"] = true
	case 15: // pipe into a partial application of a generic function
		v := g.pick(func(x *gvar) bool { return x.t.K == "slice" }, "pipeSlice")
		w := g.pick(func(x *gvar) bool { return v != nil && x.t.Equal(v.t.Elem()) && !x.fn }, "pipeElem")
		if v == nil || w == nil {
			return false
		}
		g.bind(&lang.Expr{K: "pipe", T: v.t, Args: []*lang.Expr{g.use(v), lang.Call("slice.PushLast", fn(ts(v.t), v.t), g.use(w))}}, v.t, v.known || w.known)
		g.labels["pipe into a partial application"] = true
	case 16: // if / else unifies its branches
		c := g.pick(func(x *gvar) bool { return x.t.Equal(B) && x.known }, "ifCond")
		v := g.pick(func(x *gvar) bool { return !x.fn }, "ifA")
		if c == nil || v == nil {
			return false
		}
		w := g.pick(func(x *gvar) bool { return x.t.Equal(v.t) && !x.fn && x != v }, "ifB")
		var eb *lang.Expr
		known := v.known
		if w != nil {
			eb = g.use(w)
			known = known || w.known
		} else if l := litOf(v.t, g); l != nil {
			eb = l
			known = true
		} else {
			return false
		}
		e := &lang.Expr{K: "if", T: v.t, Args: []*lang.Expr{g.use(c)}, Then: lang.Blk(g.use(v)), Else: lang.Blk(eb)}
		g.bind(e, v.t, known)
		g.labels["if/else"] = true
	case 17: // Fst / Snd
		v := g.pick(func(x *gvar) bool { return x.t.K == "tuple" && len(x.t.E) == 2 }, "fstVar")
		if v == nil {
			return false
		}
		if g.n(1, "fstOrSnd") == 0 {
			g.bind(lang.Call("frt.Fst", v.t.E[0], g.use(v)), v.t.E[0], v.known)
		} else {
			g.bind(lang.Call("frt.Snd", v.t.E[1], g.use(v)), v.t.E[1], v.known)
		}
		g.labels["call of a generic library function"] = true
	case 18: // Zip / Append
		v := g.pick(func(x *gvar) bool { return x.t.K == "slice" }, "zipA")
		w := g.pick(func(x *gvar) bool { return x.t.K == "slice" && x != v }, "zipB")
		if v == nil || w == nil {
			return false
		}
		if w.t.Equal(v.t) && g.n(1, "appendNotZip") == 0 {
			g.bind(lang.Call("slice.Append", v.t, g.use(v), g.use(w)), v.t, v.known || w.known)
		} else {
			t := sl(lang.TTuple(v.t.Elem(), w.t.Elem()))
			g.bind(lang.Call("slice.Zip", t, g.use(v), g.use(w)), t, v.known && w.known)
		}
		g.labels["call of a generic library function"] = true
	case 19, 20: // dictionaries: the type variables of a parameter may live only inside dict.Dict<K, V>
		d := g.pick(func(x *gvar) bool { return x.t.K == "dict" }, "dictVar")
		if d == nil {
			return false
		}
		kt, vt := d.t.E[0], d.t.E[1]
		switch g.n(4, "dictUse") {
		case 0: // fixes neither K nor V
			g.bind(&lang.Expr{K: "pipe", T: I, Args: []*lang.Expr{lang.Call("dict.Keys", sl(kt), g.use(d)), lang.Var("slice.Length", fn(ts(sl(kt)), I))}}, I, true)
		case 1:
			g.bind(lang.Call("dict.Keys", sl(kt), g.use(d)), sl(kt), d.known)
		case 2:
			g.bind(lang.Call("dict.Values", sl(vt), g.use(d)), sl(vt), d.known)
		case 3: // a key of known type fixes K only
			g.bind(lang.Call("dict.ContainsKey", B, g.use(d), litOf(kt, g)), B, true)
		default: // TryFind destructured: V flows into a variable
			n1, n2 := g.fresh("d"), g.fresh("d")
			g.stmts = append(g.stmts, &lang.Stmt{K: "letd", Names: []string{n1, n2}, E: lang.Call("dict.TryFind", lang.TTuple(vt, B), g.use(d), litOf(kt, g))})
			g.vars = append(g.vars, &gvar{name: n1, t: vt, known: d.known}, &gvar{name: n2, t: B, known: true})
		}
		g.labels["dictionary parameter (type variables inside dict.Dict<K, V>)"] = true
	default: // Sprintf1 does not constrain its argument
		v := g.pick(func(x *gvar) bool { return !x.fn }, "sprintfVar")
		if v == nil {
			return false
		}
		g.bind(lang.Call("frt.Sprintf1", S, lang.Str("%v"), g.use(v)), S, true)
	}
	return true
}

var paramTypes = []*lang.Type{lang.TInt, lang.TString, lang.TBool, lang.TInt, lang.TString, lang.TSlice(lang.TInt), lang.TSlice(lang.TString),
	lang.TSlice(lang.TInt), lang.TSlice(lang.TString), lang.TTuple(lang.TInt, lang.TString), lang.TSlice(lang.TTuple(lang.TInt, lang.TString)),
	lang.TTuple(lang.TInt, lang.TString), lang.TRec("RecP"), lang.TUnion("UniQ"), lang.TRec("GBox", lang.TString), lang.TUnion("OptG", lang.TInt),
	lang.TDict(lang.TString, lang.TInt), lang.TDict(lang.TInt, lang.TString), lang.TDict(lang.TString, lang.TInt)}

// genFunc generates one fully typed function (all annotations present).
func genFunc(rt *rapid.T, ctr *int, user []*userFn, labels map[string]bool) (*lang.FuncDecl, *userFn) {
	g := &fgen{rt: rt, ctr: ctr, labels: labels, user: user}
	f := &lang.FuncDecl{Name: g.fresh("fn")}
	np := 1 + g.n(3, "nparams")
	for i := 0; i < np; i++ {
		name := g.fresh("p")
		if g.n(5, "fnTypedParam") == 0 {
			ft := fn(ts([]*lang.Type{lang.TInt, lang.TString}[g.n(1, "fpIn")]), []*lang.Type{lang.TInt, lang.TString, lang.TBool}[g.n(2, "fpOut")])
			annot := g.n(2, "annotFn") == 0
			f.Params = append(f.Params, lang.Param{Name: name, T: ft, Annot: annot})
			g.vars = append(g.vars, &gvar{name: name, t: ft, known: annot, fn: true})
			continue
		}
		pt := paramTypes[g.n(len(paramTypes)-1, "ptype")]
		if len(f.Params) > 0 && g.n(2, "sameAsPrev") == 0 && f.Params[len(f.Params)-1].T.K != "func" {
			pt = f.Params[len(f.Params)-1].T // two parameters of one type: they can be unified with each other later
		}
		annot := g.n(2, "annot") == 0
		f.Params = append(f.Params, lang.Param{Name: name, T: pt, Annot: annot})
		g.vars = append(g.vars, &gvar{name: name, t: pt, known: annot})
	}
	// Go's dict.Dict needs a comparable key and fc emits the constraint any for every type parameter (a
	// documented limit), so the key type of a dictionary parameter is always fixed by a use with a key
	// literal; its value type may stay undetermined
	for _, v := range g.vars {
		if v.t.K == "dict" && !v.known {
			g.bind(lang.Call("dict.ContainsKey", lang.TBool, g.use(v), litOf(v.t.E[0], g)), lang.TBool, true)
		}
	}
	nst := 1 + g.n(7, "nstmts")
	for i, tries := 0, 0; i < nst && tries < 40; tries++ {
		if g.step() {
			i++
		}
	}
	// the result: every unused let-bound variable goes into a (nested) tuple
	var parts []*lang.Expr
	for _, v := range g.vars {
		if !v.used && strings.HasPrefix(v.name, "v") || (!v.used && strings.HasPrefix(v.name, "d")) {
			parts = append(parts, g.use(v))
		}
	}
	if len(parts) == 0 {
		v := g.vars[len(g.vars)-1]
		if v.fn {
			v = g.vars[0]
		}
		if v.fn {
			parts = append(parts, lang.Int(0))
		} else {
			parts = append(parts, g.use(v))
		}
	}
	for len(parts) > 1 {
		var next []*lang.Expr
		for i := 0; i < len(parts); i += 3 {
			grp := parts[i:min(i+3, len(parts))]
			if len(grp) == 1 {
				next = append(next, grp[0])
				continue
			}
			var tsx []*lang.Type
			for _, p := range grp {
				tsx = append(tsx, p.T)
			}
			next = append(next, &lang.Expr{K: "tuple", T: lang.TTuple(tsx...), Args: append([]*lang.Expr{}, grp...)})
		}
		parts = next
	}
	f.Ret = parts[0].T
	f.Body = &lang.Block{Stmts: g.stmts, Final: parts[0]}
	// unused destructured names must be `_` ... they are all used by construction (tuple of the unused)
	u := &userFn{name: f.Name, ret: f.Ret}
	for _, p := range f.Params {
		u.params = append(u.params, p.T)
	}
	return f, u
}

// genStagedFunc generates the "staged unification" family: two or three un-annotated parameters of
// one structured type; in separate lets (separate inference batches) each gets uses that fix only its
// outer shape and at most one of them a use that pins the element type; a later expression unifies
// them (=, if/else, a slice literal, slice.Append). The principal type must carry the pinned element
// type to every unified parameter.
func genStagedFunc(rt *rapid.T, ctr *int, labels map[string]bool) (*lang.FuncDecl, *userFn) {
	g := &fgen{rt: rt, ctr: ctr, labels: labels}
	I, S, B := lang.TInt, lang.TString, lang.TBool
	f := &lang.FuncDecl{Name: g.fresh("fn")}
	shapes := []*lang.Type{sl(I), sl(S), lang.TTuple(I, S), sl(lang.TTuple(I, S))}
	T := shapes[g.n(len(shapes)-1, "stagedType")]
	np := 2 + g.n(1, "stagedParams")
	var ps []*gvar
	for i := 0; i < np; i++ {
		name := g.fresh("p")
		annot := g.n(5, "stagedAnnot") == 0
		f.Params = append(f.Params, lang.Param{Name: name, T: T, Annot: annot})
		v := &gvar{name: name, t: T, known: annot}
		g.vars = append(g.vars, v)
		ps = append(ps, v)
	}
	shapeUse := func(v *gvar) {
		switch {
		case T.K == "slice":
			switch g.n(3, "shapeUseSlice") {
			case 0:
				g.bind(lang.Call("slice.Length", I, g.use(v)), I, true)
			case 1:
				g.bind(lang.Call("slice.IsEmpty", B, g.use(v)), B, true)
			case 2:
				g.bind(lang.Call("slice.Tail", T, g.use(v)), T, v.known)
			default:
				g.bind(lang.Call("slice.Take", T, lang.Int(1), g.use(v)), T, v.known)
			}
		default:
			if g.n(1, "shapeUseTuple") == 0 {
				g.bind(lang.Call("frt.Fst", T.E[0], g.use(v)), T.E[0], v.known)
			} else {
				g.bind(lang.Call("frt.Snd", T.E[1], g.use(v)), T.E[1], v.known)
			}
		}
	}
	pinUse := func(v *gvar) {
		x := g.fresh("x")
		switch {
		case T.Equal(sl(I)):
			if g.n(1, "pinSliceInt") == 0 {
				g.bind(lang.Bin("+", I, lang.Call("slice.Head", I, g.use(v)), lang.Int(1)), I, true)
			} else {
				g.bind(lang.Call("slice.Map", T, lam([]lang.Param{{Name: x, T: I}}, lang.Bin("+", I, lang.Var(x, I), lang.Int(1)), fn(ts(I), I)), g.use(v)), T, true)
			}
		case T.Equal(sl(S)):
			if g.n(1, "pinSliceStr") == 0 {
				g.bind(lang.Call("strings.Concat", S, lang.Str(","), g.use(v)), S, true)
			} else {
				g.bind(lang.Bin("+", S, lang.Call("slice.Head", S, g.use(v)), lang.Str("s")), S, true)
			}
		case T.K == "tuple":
			g.bind(lang.Bin("+", I, lang.Call("frt.Fst", I, g.use(v)), lang.Int(1)), I, true)
			if g.n(1, "pinBothHalves") == 0 {
				g.bind(lang.Call("strings.Length", I, lang.Call("frt.Snd", S, g.use(v))), I, true)
			}
		default: // [](int*string)
			h := g.bind(lang.Call("slice.Head", T.Elem(), g.use(v)), T.Elem(), v.known)
			g.bind(lang.Bin("+", I, lang.Call("frt.Fst", I, g.use(h)), lang.Int(1)), I, true)
			g.bind(lang.Bin("+", S, lang.Call("frt.Snd", S, g.use(h)), lang.Str("s")), S, true)
		}
	}
	// the stages, in a drawn order
	type stage struct {
		v   *gvar
		pin bool
	}
	var stages []stage
	pinned := -1
	if g.n(3, "noPin") != 0 {
		pinned = g.n(np-1, "pinnedParam")
	}
	for i, v := range ps {
		for k := g.n(2, "nShapeUses"); k > 0; k-- {
			stages = append(stages, stage{v, false})
		}
		if i == pinned {
			stages = append(stages, stage{v, true})
		}
	}
	order := rapid.Permutation(seqN(len(stages))).Draw(rt, "stageOrder")
	for _, i := range order {
		if stages[i].pin {
			pinUse(stages[i].v)
		} else {
			shapeUse(stages[i].v)
		}
	}
	// the unifier, in its own let
	a0, b0 := ps[0], ps[1]
	if np == 3 && g.n(1, "unifyLastTwo") == 0 {
		a0, b0 = ps[1], ps[2]
	}
	switch g.n(3, "unifier") {
	case 0:
		g.bind(lang.Bin([]string{"=", "<>"}[g.n(1, "unifyEq")], B, g.use(a0), g.use(b0)), B, true)
	case 1:
		c := g.bind(lang.Bin(">", B, lang.Int(int64(g.n(9, "condLit"))), lang.Int(3)), B, true)
		e := &lang.Expr{K: "if", T: T, Args: []*lang.Expr{g.use(c)}, Then: lang.Blk(g.use(a0)), Else: lang.Blk(g.use(b0))}
		g.bind(e, T, a0.known || b0.known)
	case 2:
		g.bind(&lang.Expr{K: "slice", T: sl(T), Args: []*lang.Expr{g.use(a0), g.use(b0)}}, sl(T), a0.known || b0.known)
	default:
		if T.K == "slice" {
			g.bind(lang.Call("slice.Append", T, g.use(a0), g.use(b0)), T, a0.known || b0.known)
		} else {
			g.bind(lang.Bin("=", B, g.use(a0), g.use(b0)), B, true)
		}
	}
	if np == 3 && g.n(1, "chainUnify") == 0 {
		g.bind(lang.Bin("=", B, g.use(ps[0]), g.use(ps[2])), B, true)
	}
	labels["staged unification across separate lets"] = true
	if pinned >= 0 {
		labels["staged unification with one pinned parameter"] = true
	}
	// result: every unused let-bound variable
	var parts []*lang.Expr
	for _, v := range g.vars {
		if !v.used && strings.HasPrefix(v.name, "v") {
			parts = append(parts, g.use(v))
		}
	}
	if len(parts) == 0 {
		parts = append(parts, lang.Int(0))
	}
	for len(parts) > 1 {
		var next []*lang.Expr
		for i := 0; i < len(parts); i += 3 {
			grp := parts[i:min(i+3, len(parts))]
			if len(grp) == 1 {
				next = append(next, grp[0])
				continue
			}
			var tsx []*lang.Type
			for _, p := range grp {
				tsx = append(tsx, p.T)
			}
			next = append(next, &lang.Expr{K: "tuple", T: lang.TTuple(tsx...), Args: append([]*lang.Expr{}, grp...)})
		}
		parts = next
	}
	f.Ret = parts[0].T
	f.Body = &lang.Block{Stmts: g.stmts, Final: parts[0]}
	u := &userFn{name: f.Name, ret: f.Ret}
	for _, p := range f.Params {
		u.params = append(u.params, p.T)
	}
	return f, u
}

// readers of RecH with a known signature: calling one determines its argument
func recHReaders() ([]*lang.FuncDecl, []*userFn) {
	H := lang.TRec("RecH")
	rd := func(name, field string, t *lang.Type) *lang.FuncDecl {
		return &lang.FuncDecl{Name: name, Params: []lang.Param{{Name: "h", T: H, Annot: true}}, Ret: t,
			Body: lang.Blk(&lang.Expr{K: "field", Name: field, T: t, Args: []*lang.Expr{lang.Var("h", H)}})}
	}
	fs := []*lang.FuncDecl{rd("readN", "HN", lang.TInt), rd("readT", "HT", lang.TString)}
	var us []*userFn
	for _, f := range fs {
		us = append(us, &userFn{name: f.Name, params: []*lang.Type{H}, ret: f.Ret})
	}
	return fs, us
}

// genFieldFunc generates the "fields of a parameter determined earlier" family: a record parameter that
// is usually not annotated gets its type from one statement (a call of a reader with a known signature,
// a comparison with a literal or with an annotated parameter, a slice literal shared with a literal);
// later lets read its fields without adding any relation of their own (let xs = p.HS, let (a, b) = p.HP)
// and the values read are used in ways that need their type (arithmetic, destructuring, slice.Map with
// an un-annotated function parameter).
func genFieldFunc(rt *rapid.T, ctr *int, labels map[string]bool) (*lang.FuncDecl, *userFn) {
	g := &fgen{rt: rt, ctr: ctr, labels: labels}
	I, S, B := lang.TInt, lang.TString, lang.TBool
	H := lang.TRec("RecH")
	f := &lang.FuncDecl{Name: g.fresh("fn")}
	pname := g.fresh("p")
	annot := g.n(5, "fieldAnnot") == 0
	f.Params = append(f.Params, lang.Param{Name: pname, T: H, Annot: annot})
	p := &gvar{name: pname, t: H, known: annot}
	g.vars = append(g.vars, p)
	// an un-annotated function parameter handed to slice.Map over a field
	var fp *gvar
	if g.n(1, "fieldFnParam") == 0 {
		out := []*lang.Type{I, S, B}[g.n(2, "fieldFnOut")]
		ft := fn(ts(I), out)
		n := g.fresh("p")
		fa := g.n(3, "fieldFnAnnot") == 0
		prm := lang.Param{Name: n, T: ft, Annot: fa}
		if g.n(1, "fnParamFirst") == 0 {
			f.Params = append([]lang.Param{prm}, f.Params...)
		} else {
			f.Params = append(f.Params, prm)
		}
		fp = &gvar{name: n, t: ft, known: fa, fn: true}
	}
	hlit := func() *lang.Expr {
		return &lang.Expr{K: "reclit", Name: "RecH", T: H, Fields: []lang.FieldInit{
			{Name: "HP", E: &lang.Expr{K: "tuple", T: lang.TTuple(I, S), Args: []*lang.Expr{lang.Int(1), lang.Str("a")}}},
			{Name: "HS", E: &lang.Expr{K: "slice", T: sl(I), Args: []*lang.Expr{lang.Int(2)}}},
			{Name: "HN", E: lang.Int(int64(g.n(9, "hn")))}, {Name: "HT", E: lang.Str("t")}}}
	}
	// the statement that determines p (always first: a field can only be read from a known record)
	switch g.n(3, "determiner") {
	case 0:
		g.bind(lang.Call("readN", I, g.use(p)), I, true)
	case 1:
		g.bind(lang.Call("readT", S, g.use(p)), S, true)
	case 2:
		g.bind(lang.Bin("=", B, g.use(p), hlit()), B, true)
	default:
		g.bind(&lang.Expr{K: "slice", T: sl(H), Args: []*lang.Expr{g.use(p), hlit()}}, sl(H), true)
	}
	fld := func(name string, t *lang.Type) *lang.Expr {
		return &lang.Expr{K: "field", Name: name, T: t, Args: []*lang.Expr{g.use(p)}}
	}
	nst := 1 + g.n(4, "nFieldStages")
	for i := 0; i < nst; i++ {
		switch g.n(6, "fieldStage") {
		case 0: // let (a, b) = p.HP
			n1, n2 := g.fresh("d"), g.fresh("d")
			g.stmts = append(g.stmts, &lang.Stmt{K: "letd", Names: []string{n1, n2}, E: fld("HP", lang.TTuple(I, S))})
			a, b := &gvar{name: n1, t: I, known: true}, &gvar{name: n2, t: S, known: true}
			g.vars = append(g.vars, a, b)
			g.bind(lang.Bin("+", I, g.use(a), lang.Int(1)), I, true)
			g.bind(lang.Bin("+", S, g.use(b), lang.Str("s")), S, true)
			labels["destructuring of a field read"] = true
		case 1: // let t = p.HP; then destructured or projected
			t := g.bind(fld("HP", lang.TTuple(I, S)), lang.TTuple(I, S), true)
			if g.n(1, "tupleVia") == 0 {
				n1, n2 := g.fresh("d"), g.fresh("d")
				g.stmts = append(g.stmts, &lang.Stmt{K: "letd", Names: []string{n1, n2}, E: g.use(t)})
				a, b := &gvar{name: n1, t: I, known: true}, &gvar{name: n2, t: S, known: true}
				g.vars = append(g.vars, a, b)
				g.bind(lang.Bin("+", I, g.use(a), lang.Call("strings.Length", I, g.use(b))), I, true)
			} else {
				g.bind(lang.Bin("+", I, lang.Call("frt.Fst", I, g.use(t)), lang.Int(1)), I, true)
			}
		case 2: // let xs = p.HS; slice.Map f xs with the un-annotated function parameter (or a lambda)
			xs := g.bind(fld("HS", sl(I)), sl(I), true)
			if fp != nil && !fp.used {
				g.bind(lang.Call("slice.Map", sl(fp.t.Result()), g.use(fp), g.use(xs)), sl(fp.t.Result()), true)
				labels["function parameter mapped over a field read"] = true
			} else {
				x := g.fresh("x")
				g.bind(lang.Call("slice.Map", sl(I), lam([]lang.Param{{Name: x, T: I}}, lang.Bin("+", I, lang.Var(x, I), lang.Int(1)), fn(ts(I), I)), g.use(xs)), sl(I), true)
			}
		case 3:
			xs := g.bind(fld("HS", sl(I)), sl(I), true)
			g.bind(lang.Bin("+", I, lang.Call("slice.Head", I, g.use(xs)), lang.Int(1)), I, true)
		case 4:
			n := g.bind(fld("HN", I), I, true)
			g.bind(lang.Bin("+", I, g.use(n), lang.Int(1)), I, true)
		case 5:
			g.bind(lang.Bin("+", S, fld("HT", S), lang.Str("x")), S, true)
		default: // a pair of two field reads
			g.bind(&lang.Expr{K: "tuple", T: lang.TTuple(I, sl(I)), Args: []*lang.Expr{fld("HN", I), fld("HS", sl(I))}}, lang.TTuple(I, sl(I)), true)
		}
	}
	labels["fields read from a parameter determined by an earlier statement"] = true
	var parts []*lang.Expr
	for _, v := range g.vars {
		if !v.used && (strings.HasPrefix(v.name, "v") || strings.HasPrefix(v.name, "d")) {
			parts = append(parts, g.use(v))
		}
	}
	if len(parts) == 0 {
		parts = append(parts, lang.Int(0))
	}
	for len(parts) > 1 {
		var next []*lang.Expr
		for i := 0; i < len(parts); i += 3 {
			grp := parts[i:min(i+3, len(parts))]
			if len(grp) == 1 {
				next = append(next, grp[0])
				continue
			}
			var tsx []*lang.Type
			for _, q := range grp {
				tsx = append(tsx, q.T)
			}
			next = append(next, &lang.Expr{K: "tuple", T: lang.TTuple(tsx...), Args: append([]*lang.Expr{}, grp...)})
		}
		parts = next
	}
	f.Ret = parts[0].T
	f.Body = &lang.Block{Stmts: g.stmts, Final: parts[0]}
	u := &userFn{name: f.Name, ret: f.Ret}
	for _, q := range f.Params {
		u.params = append(u.params, q.T)
	}
	return f, u
}

// genResultOnlyFunc generates the "type variables only in the result" family: two or three lets bind
// lambdas whose parameters are not annotated and not constrained, and the result is a tuple of them in an
// order that differs from the order of the lets. The type parameters must be numbered by first occurrence
// in the parameter list, then in the result type - not in the order the body introduces them.
func genResultOnlyFunc(rt *rapid.T, ctr *int, labels map[string]bool) (*lang.FuncDecl, *userFn) {
	g := &fgen{rt: rt, ctr: ctr, labels: labels}
	I := lang.TInt
	f := &lang.FuncDecl{Name: g.fresh("fn")}
	var px *gvar
	if g.n(1, "resultOnlyParam") == 0 {
		name := g.fresh("p")
		annot := g.n(2, "resultOnlyAnnot") == 0
		f.Params = append(f.Params, lang.Param{Name: name, T: I, Annot: annot})
		px = &gvar{name: name, t: I, known: annot}
		g.vars = append(g.vars, px)
	}
	nl := 2 + g.n(1, "nLambdas")
	var lams []*gvar
	for i := 0; i < nl; i++ {
		// the lambda's parameter type is a fresh variable; tvN stands for it in the generation-time type
		tvn := tv(fmt.Sprintf("r%d", i))
		x := g.fresh("x")
		xv := lang.Var(x, tvn)
		var body *lang.Expr
		var rt2 *lang.Type
		switch g.n(4, "lambdaShape") {
		case 0:
			body, rt2 = &lang.Expr{K: "slice", T: sl(tvn), Args: []*lang.Expr{xv}}, sl(tvn)
		case 1:
			body, rt2 = &lang.Expr{K: "tuple", T: lang.TTuple(tvn, tvn), Args: []*lang.Expr{xv, lang.Var(x, tvn)}}, lang.TTuple(tvn, tvn)
		case 2:
			body, rt2 = xv, tvn
		case 3:
			body, rt2 = lang.Call("GSome", lang.TUnion("OptG", tvn), xv), lang.TUnion("OptG", tvn)
		default:
			if px != nil {
				body, rt2 = &lang.Expr{K: "tuple", T: lang.TTuple(tvn, I), Args: []*lang.Expr{xv, g.use(px)}}, lang.TTuple(tvn, I)
			} else {
				body, rt2 = &lang.Expr{K: "tuple", T: lang.TTuple(I, tvn), Args: []*lang.Expr{lang.Int(1), xv}}, lang.TTuple(I, tvn)
			}
		}
		ft := fn(ts(tvn), rt2)
		v := g.bind(lam([]lang.Param{{Name: x, T: tvn}}, body, ft), ft, false)
		lams = append(lams, v)
	}
	order := rapid.Permutation(seqN(nl)).Draw(rt, "resultOrder")
	var parts []*lang.Expr
	var tsx []*lang.Type
	for _, i := range order {
		parts = append(parts, g.use(lams[i]))
		tsx = append(tsx, lams[i].t)
	}
	sorted := true
	for i, o := range order {
		if o != i {
			sorted = false
		}
	}
	if !sorted {
		labels["result-only type variables introduced in another order than the result mentions them"] = true
	}
	labels["type variables that occur only in the result"] = true
	res := &lang.Expr{K: "tuple", T: lang.TTuple(tsx...), Args: parts}
	f.Ret = res.T
	f.Body = &lang.Block{Stmts: g.stmts, Final: res}
	u := &userFn{name: f.Name, ret: f.Ret}
	for _, q := range f.Params {
		u.params = append(u.params, q.T)
	}
	return f, u
}

// genPartialGenericFunc generates the "generic instantiation known half from each side" family: two lets
// build values of one generic type (a record with two type parameters, or a generic union over a pair),
// each fixing another half of the type arguments through a literal while the other half comes from an
// un-annotated parameter; a later expression unifies the two (=, if/else, a slice literal). The principal
// type gives both parameters their concrete types and the result the complete instantiation.
func genPartialGenericFunc(rt *rapid.T, ctr *int, labels map[string]bool) (*lang.FuncDecl, *userFn) {
	g := &fgen{rt: rt, ctr: ctr, labels: labels}
	I, S, B := lang.TInt, lang.TString, lang.TBool
	f := &lang.FuncDecl{Name: g.fresh("fn")}
	mk := func(t *lang.Type) *gvar {
		name := g.fresh("p")
		annot := g.n(5, "partialAnnot") == 0
		f.Params = append(f.Params, lang.Param{Name: name, T: t, Annot: annot})
		v := &gvar{name: name, t: t, known: annot}
		g.vars = append(g.vars, v)
		return v
	}
	var c *gvar
	if g.n(1, "condParam") == 0 {
		c = mk(B)
	}
	p, q := mk(S), mk(I)
	var T *lang.Type
	var a, b *gvar
	if g.n(1, "partialShape") == 0 {
		T = lang.TRec("GPair", S, I)
		lit := func(x, y *lang.Expr) *lang.Expr {
			e := &lang.Expr{K: "reclit", Name: "GPair", T: T, Fields: []lang.FieldInit{{Name: "PA", E: x}, {Name: "PB", E: y}}}
			if g.n(1, "pairFieldOrder") == 0 {
				e.Fields[0], e.Fields[1] = e.Fields[1], e.Fields[0]
			}
			return e
		}
		a = g.bind(lit(g.use(p), lang.Int(0)), T, p.known)
		b = g.bind(lit(lang.Str("none"), g.use(q)), T, q.known)
		labels["generic record with two type parameters, each value fixing one of them"] = true
	} else {
		T = lang.TUnion("OptG", lang.TTuple(S, I))
		tup := func(x, y *lang.Expr) *lang.Expr {
			return &lang.Expr{K: "tuple", T: lang.TTuple(S, I), Args: []*lang.Expr{x, y}}
		}
		a = g.bind(lang.Call("GSome", T, tup(g.use(p), lang.Int(0))), T, p.known)
		b = g.bind(lang.Call("GSome", T, tup(lang.Str("none"), g.use(q))), T, q.known)
		labels["generic union over a pair, each value fixing one half"] = true
	}
	if g.n(1, "swapSides") == 0 {
		a, b = b, a
	}
	switch g.n(2, "partialUnifier") {
	case 0:
		g.bind(lang.Bin([]string{"=", "<>"}[g.n(1, "partialEq")], B, g.use(a), g.use(b)), B, true)
	case 1:
		var cond *lang.Expr
		if c != nil {
			cond = g.use(c)
		} else {
			cond = lang.Bin(">", B, g.use(q), lang.Int(3))
		}
		g.bind(&lang.Expr{K: "if", T: T, Args: []*lang.Expr{cond}, Then: lang.Blk(g.use(a)), Else: lang.Blk(g.use(b))}, T, true)
	default:
		g.bind(&lang.Expr{K: "slice", T: sl(T), Args: []*lang.Expr{g.use(a), g.use(b)}}, sl(T), true)
	}
	var parts []*lang.Expr
	for _, v := range g.vars {
		if !v.used && strings.HasPrefix(v.name, "v") {
			parts = append(parts, g.use(v))
		}
	}
	if len(parts) == 0 {
		parts = append(parts, lang.Int(0))
	}
	res := parts[0]
	if len(parts) > 1 {
		var tsx []*lang.Type
		for _, x := range parts {
			tsx = append(tsx, x.T)
		}
		res = &lang.Expr{K: "tuple", T: lang.TTuple(tsx...), Args: parts}
		if len(parts) > 3 {
			res = &lang.Expr{K: "tuple", T: lang.TTuple(parts[0].T, parts[1].T), Args: parts[:2]}
		}
	}
	f.Ret = res.T
	f.Body = &lang.Block{Stmts: g.stmts, Final: res}
	u := &userFn{name: f.Name, ret: f.Ret}
	for _, x := range f.Params {
		u.params = append(u.params, x.T)
	}
	return f, u
}

// genTwiceMentionedGroup generates the "one generic union mentioned twice in one type" family: a generic
// function whose result (or parameter list) mentions OptG at two places, the type variable only at one
// of them, followed by callers that instantiate it at two different types in one body, or from a
// caller that is generic itself. Every instantiation has to replace the callee's type variable at
// every place it occurs, and each call gets its own instance.
func genTwiceMentionedGroup(rt *rapid.T, ctr *int, labels map[string]bool) []*lang.FuncDecl {
	g := &fgen{rt: rt, ctr: ctr, labels: labels}
	I, S, B := lang.TInt, lang.TString, lang.TBool
	opt := func(t *lang.Type) *lang.Type { return lang.TUnion("OptG", t) }
	some := func(e *lang.Expr) *lang.Expr { return lang.Call("GSome", opt(e.T), e) }
	tup := func(es ...*lang.Expr) *lang.Expr {
		var tsx []*lang.Type
		for _, e := range es {
			tsx = append(tsx, e.T)
		}
		return &lang.Expr{K: "tuple", T: lang.TTuple(tsx...), Args: es}
	}
	X := lang.TVar("x") // the callee's parameter: un-annotated, nothing in the body fixes it
	callee := &lang.FuncDecl{Name: g.fresh("fn")}
	x := lang.Var(g.fresh("p"), X)
	shape := g.n(4, "twiceShape")
	// slot: which component of the result carries the variable (-1: the result is not a tuple)
	slot := 1
	var resOf func(t *lang.Type) *lang.Type
	switch shape {
	case 0: // (GSome 0, GSome x)
		callee.Params = []lang.Param{{Name: x.Name, T: X}}
		callee.Body = lang.Blk(tup(some(lang.Int(0)), some(x)))
		resOf = func(t *lang.Type) *lang.Type { return lang.TTuple(opt(I), opt(t)) }
	case 1: // (GSome x, GSome 0): the variable at the first mention
		slot = 0
		callee.Params = []lang.Param{{Name: x.Name, T: X}}
		callee.Body = lang.Blk(tup(some(x), some(lang.Str("k"))))
		resOf = func(t *lang.Type) *lang.Type { return lang.TTuple(opt(t), opt(S)) }
	case 2: // GSome (GSome x)
		slot = -1
		callee.Params = []lang.Param{{Name: x.Name, T: X}}
		callee.Body = lang.Blk(some(some(x)))
		resOf = func(t *lang.Type) *lang.Type { return opt(opt(t)) }
	case 3: // (d:OptG<int>) x -> (d, GSome x)
		d := lang.Var(g.fresh("p"), opt(I))
		callee.Params = []lang.Param{{Name: d.Name, T: opt(I), Annot: true}, {Name: x.Name, T: X}}
		callee.Body = lang.Blk(tup(d, some(x)))
		resOf = func(t *lang.Type) *lang.Type { return lang.TTuple(opt(I), opt(t)) }
	default: // (GSome [x], GSome 0, GSome x): three mentions, the variable at the first and the last
		slot = 2
		callee.Params = []lang.Param{{Name: x.Name, T: X}}
		callee.Body = lang.Blk(tup(some(&lang.Expr{K: "slice", T: sl(X), Args: []*lang.Expr{x}}), some(lang.Int(0)), some(x)))
		resOf = func(t *lang.Type) *lang.Type { return lang.TTuple(opt(sl(t)), opt(I), opt(t)) }
	}
	callee.Ret = resOf(X)
	labels["generic function whose type mentions one generic union at several places"] = true
	out := []*lang.FuncDecl{callee}
	// one call of the callee at type t with argument a, bound so that the part carrying t gets a name
	call := func(st *[]*lang.Stmt, a *lang.Expr) *lang.Expr {
		args := []*lang.Expr{a}
		if shape == 3 {
			args = []*lang.Expr{some(lang.Int(int64(g.n(9, "dArg")))), a}
		}
		c := lang.Call(callee.Name, resOf(a.T), args...)
		name := g.fresh("v")
		if slot < 0 {
			*st = append(*st, lang.Let(name, c))
			return lang.Var(name, c.T)
		}
		names := make([]string, len(c.T.E))
		for i := range names {
			names[i] = "_"
		}
		names[slot] = name
		*st = append(*st, &lang.Stmt{K: "letd", Names: names, E: c})
		return lang.Var(name, c.T.E[slot])
	}
	base := []*lang.Type{S, B, I, sl(S), lang.TTuple(I, S)}
	ncallers := 1 + g.n(1, "nTwiceCallers")
	for k := 0; k < ncallers; k++ {
		f := &lang.FuncDecl{Name: g.fresh("fn")}
		var st []*lang.Stmt
		var parts []*lang.Expr
		kind := g.n(2, "twiceCaller")
		switch kind {
		case 0, 1: // two or three instantiations in one body
			n := 2 + g.n(1, "nInst")
			off := g.n(len(base)-1, "instOffset")
			for j := 0; j < n; j++ {
				t := base[(off+j)%len(base)]
				p := lang.Param{Name: g.fresh("p"), T: t, Annot: kind == 0 || g.n(1, "instAnnot") == 0}
				f.Params = append(f.Params, p)
				parts = append(parts, call(&st, lang.Var(p.Name, t)))
			}
			labels["one generic function instantiated at several types in one body"] = true
		default: // a generic caller: its own variables next to the callee's
			a := lang.Param{Name: g.fresh("p"), T: lang.TVar("a")}
			b := lang.Param{Name: g.fresh("p"), T: lang.TVar("b")}
			f.Params = []lang.Param{a, b}
			pb := call(&st, lang.Var(b.Name, b.T))
			parts = []*lang.Expr{lang.Var(a.Name, a.T), pb}
			if g.n(1, "genericCallerTwice") == 0 {
				parts = append(parts, call(&st, lang.Var(a.Name, a.T)))
			}
			labels["generic caller of a generic function"] = true
		}
		res := tup(parts...)
		f.Ret = res.T
		f.Body = &lang.Block{Stmts: st, Final: res}
		out = append(out, f)
	}
	return out
}

func hasTVar(t *lang.Type) bool {
	if t == nil {
		return false
	}
	if t.K == "tvar" {
		return true
	}
	for _, e := range t.E {
		if hasTVar(e) {
			return true
		}
	}
	return false
}

func seqN(n int) []int {
	out := make([]int, n)
	for i := range out {
		out[i] = i
	}
	return out
}

// --- reading fc's signatures ---------------------------------------------------------------------------

func emittedSignatures(goSrc string) (map[string]string, error) {
	fset := token.NewFileSet()
	f, err := parser.ParseFile(fset, "gen.go", goSrc, 0)
	if err != nil {
		return nil, fmt.Errorf("emitted Go does not parse: %v", err)
	}
	out := map[string]string{}
	for _, d := range f.Decls {
		fd, ok := d.(*ast.FuncDecl)
		if !ok || fd.Recv != nil {
			continue
		}
		var sb strings.Builder
		if fd.Type.TypeParams != nil {
			var tp []string
			for _, fl := range fd.Type.TypeParams.List {
				for _, n := range fl.Names {
					tp = append(tp, n.Name+" "+types.ExprString(fl.Type))
				}
			}
			sb.WriteString("[" + strings.Join(tp, ", ") + "]")
		}
		var ps []string
		if fd.Type.Params != nil {
			for _, fl := range fd.Type.Params.List {
				k := len(fl.Names)
				if k == 0 {
					k = 1
				}
				for i := 0; i < k; i++ {
					ps = append(ps, types.ExprString(fl.Type))
				}
			}
		}
		sb.WriteString("(" + strings.Join(ps, ", ") + ")")
		if fd.Type.Results != nil && len(fd.Type.Results.List) > 0 {
			var rs []string
			for _, fl := range fd.Type.Results.List {
				rs = append(rs, types.ExprString(fl.Type))
			}
			sb.WriteString(" " + strings.Join(rs, ", "))
		}
		out[fd.Name.Name] = sb.String()
	}
	return out, nil
}

// --- the check ----------------------------------------------------------------------------------------------

// Case: two sources of the same program (B has additional, redundant
// annotations erased) and the signatures the reference inference gives.
type Case struct {
	A    string            `json:"a"`
	B    string            `json:"b,omitempty"`
	Want map[string]string `json:"want"` // function name -> Go signature
	Inst string            `json:"inst"` // Go file instantiating every generic function at two types
}

var runner *pipeline.Runner
var seq int

func transpile(e *vt.Env, fc, src string) (string, string, error) {
	seq++
	dir := filepath.Join(e.Scratch, fmt.Sprintf("w%d", seq%4))
	os.MkdirAll(dir, 0o755)
	os.Remove(filepath.Join(dir, "gen_prog.go"))
	if err := os.WriteFile(filepath.Join(dir, "prog.fo"), []byte(src), 0o644); err != nil {
		return "", "", err
	}
	r := pipeline.RunFC(fc, dir, 60*time.Second, filepath.Join(e.Repo, "pkg", "pkg_all.foi"), "prog.fo")
	if r.TimedOut || r.Signal != "" || r.Err != nil {
		return "", "", fmt.Errorf("fc did not finish normally: %s", r.String())
	}
	if r.Exit != 0 {
		return "", r.Combined(), nil
	}
	bs, err := os.ReadFile(filepath.Join(dir, "gen_prog.go"))
	if err != nil {
		return "", "exit 0 but no gen_prog.go", nil
	}
	return string(bs), "", nil
}

func checkWith(e *vt.Env, fc string, c Case, typecheck bool) error {
	ga, rej, err := transpile(e, fc, c.A)
	if err != nil {
		return err
	}
	if rej != "" {
		return fmt.Errorf("fc rejects a program of the inference profile: %s\n--- source\n%s", pipeline.Clip(rej, 500), c.A)
	}
	got, err := emittedSignatures(ga)
	if err != nil {
		return fmt.Errorf("%v\n--- source\n%s", err, c.A)
	}
	var names []string
	for n := range c.Want {
		names = append(names, n)
	}
	sort.Strings(names)
	for _, n := range names {
		if got[n] != c.Want[n] {
			return fmt.Errorf("function %s: fc emits the signature  %s\n               the principal type maps to  %s\n--- source\n%s", n, got[n], c.Want[n], c.A)
		}
	}
	if c.B != "" {
		gb, rej, err := transpile(e, fc, c.B)
		if err != nil {
			return err
		}
		if rej != "" {
			return fmt.Errorf("after erasing annotations the body already determines, fc rejects the program: %s\n--- source\n%s\n--- with the annotations\n%s", pipeline.Clip(rej, 500), c.B, c.A)
		}
		if ga != gb {
			return fmt.Errorf("erasing annotations the body already determines changes the emitted code\n--- erased\n%s\n--- with the annotations\n%s", c.B, c.A)
		}
	}
	if typecheck {
		if runner == nil {
			runner = pipeline.NewRunner(e.Scratch, e.Repo, e.GoCache)
		}
		res, err := runner.RunProgram(fc, []string{filepath.Join(e.Repo, "pkg", "pkg_all.foi")}, []pipeline.SrcFile{{Name: "prog.fo", Content: c.A}, {Name: "inst.go", Content: c.Inst}}, false)
		if err != nil {
			return fmt.Errorf("harness: %v", err)
		}
		if res.Stage == "gobuild" {
			return fmt.Errorf("the emitted package does not type-check in Go (with every generic function instantiated at two types):\n%s\n--- source\n%s\n--- emitted\n%s", pipeline.Clip(res.Output, 1200), c.A, pipeline.Clip(res.GoSrc["gen_prog.go"], 5000))
		}
	}
	return nil
}

func check(c Case) error {
	e := vt.Get()
	if e.FC == "" {
		return fmt.Errorf("needs VERIF_FC")
	}
	if err := checkWith(e, e.FC, c, true); err != nil {
		return err
	}
	if e.FCB != "" {
		if err := checkWith(e, e.FCB, c, false); err != nil {
			return fmt.Errorf("(compiler regenerated from fc/*.fo) %v", err)
		}
	}
	return nil
}

// --- programs and variants --------------------------------------------------------------------------------------

func printProgram(funcs []*lang.FuncDecl) string {
	pr := &lang.Program{}
	pr.Items = append(pr.Items, decls...)
	for _, f := range funcs {
		pr.Items = append(pr.Items, &lang.TopItem{Func: f})
	}
	// known finding D20: the String() methods fc emits for a union with payload use frt, so the
	// program must import frt itself; the profile's programs always declare such a union
	imps := pr.UsedPackages()
	hasFrt := false
	for _, i := range imps {
		if i == "frt" {
			hasFrt = true
		}
	}
	if !hasFrt {
		imps = append([]string{"frt"}, imps...)
	}
	pr.Imports = imps
	return lang.Print(pr, lang.Canonical{})
}

func inferAll(funcs []*lang.FuncDecl) (map[string]*Scheme, error) {
	user := map[string]*Scheme{}
	for _, f := range funcs {
		in := newInferer(user)
		s, err := in.InferFunc(f)
		if err != nil {
			return nil, fmt.Errorf("%s: %v", f.Name, err)
		}
		user[f.Name] = s
	}
	return user, nil
}

func cloneFuncs(funcs []*lang.FuncDecl) []*lang.FuncDecl {
	var out []*lang.FuncDecl
	for _, f := range funcs {
		c := *f
		c.Params = append([]lang.Param{}, f.Params...)
		out = append(out, &c)
	}
	return out
}

func sameSchemes(x, y map[string]*Scheme) bool {
	for k, s := range x {
		if !s.Equal(y[k]) {
			return false
		}
	}
	return true
}

func instFile(schemes map[string]*Scheme) string {
	var sb strings.Builder
	sb.WriteString("package main\n\nfunc main() {}\n\n")
	kinds := []string{"int", "string", "bool", "[]int"}
	var names []string
	for n := range schemes {
		names = append(names, n)
	}
	sort.Strings(names)
	for _, n := range names {
		s := schemes[n]
		if len(s.TParams) == 0 {
			continue
		}
		for rot := 0; rot < 2; rot++ {
			var targs []string
			for i := range s.TParams {
				targs = append(targs, kinds[(i+rot)%len(kinds)])
			}
			fmt.Fprintf(&sb, "var _ = %s[%s]\n", n, strings.Join(targs, ", "))
		}
	}
	return sb.String()
}

func genCase(rt *rapid.T) (Case, map[string]bool, int, error) {
	labels := map[string]bool{}
	ctr := 0
	var funcs []*lang.FuncDecl
	var user []*userFn
	{
		fs, us := recHReaders()
		funcs, user = append(funcs, fs...), append(user, us...)
	}
	nf := 3 + rapid.IntRange(0, 6).Draw(rt, "nfuncs")
	for i := 0; i < nf; i++ {
		var f *lang.FuncDecl
		var u *userFn
		if k := rapid.IntRange(0, 7).Draw(rt, "staged"); k == 7 {
			// none of these is offered as a callee to the random bodies (their intended types are not ground)
			funcs = append(funcs, genTwiceMentionedGroup(rt, &ctr, labels)...)
			continue
		} else if k == 6 {
			f, u = genPartialGenericFunc(rt, &ctr, labels)
		} else if k == 0 {
			f, u = genStagedFunc(rt, &ctr, labels)
		} else if k == 1 {
			f, u = genFieldFunc(rt, &ctr, labels)
		} else if k == 2 {
			// not offered to later functions as a callee: Go cannot infer type parameters that occur only
			// in the result, a call would need explicit type arguments
			f, _ = genResultOnlyFunc(rt, &ctr, labels)
			funcs = append(funcs, f)
			continue
		} else {
			f, u = genFunc(rt, &ctr, user, labels)
		}
		funcs = append(funcs, f)
		user = append(user, u)
	}
	// a random subset of the parameter annotations was erased while generating (so that the
	// generator knows which operands have a type where they are written); sometimes a result annotation is kept
	nErased := 0
	for _, f := range funcs {
		for i := range f.Params {
			if !f.Params[i].Annot {
				nErased++
			}
		}
		if rapid.IntRange(0, 4).Draw(rt, "retAnnot") == 0 && !hasTVar(f.Ret) {
			f.RetAnnot = true
		}
	}
	schemes, err := inferAll(funcs)
	if err != nil {
		return Case{A: printProgram(funcs)}, labels, 0, err
	}
	// variant B: additionally erase every kept annotation that leaves all principal types unchanged
	fb := cloneFuncs(funcs)
	redundant := 0
	for _, f := range fb {
		for i := range f.Params {
			if !f.Params[i].Annot {
				continue
			}
			f.Params[i].Annot = false
			s2, err := inferAll(fb)
			if err != nil || !sameSchemes(schemes, s2) {
				f.Params[i].Annot = true
				continue
			}
			redundant++
		}
	}
	c := Case{A: printProgram(funcs), Want: map[string]string{}, Inst: instFile(schemes)}
	if redundant > 0 {
		c.B = printProgram(fb)
		labels["redundant annotations erased"] = true
	}
	generic := 0
	for n, s := range schemes {
		c.Want[n] = s.GoSignature()
		if len(s.TParams) > 0 {
			generic++
		}
	}
	if generic > 0 {
		labels["function with surviving type parameters"] = true
	}
	return c, labels, nErased + generic, nil
}

func TestSignatures(t *testing.T) {
	e := vt.Get()
	defer e.Flush()
	if e.FC == "" {
		t.Skip("needs the orchestrator (VERIF_FC)")
	}
	rapid.Check(t, func(rt *rapid.T) {
		c, labels, interesting, err := genCase(rt)
		if err != nil {
			os.WriteFile(filepath.Join(e.Scratch, "harness_bug.txt"), []byte(err.Error()+"\n"+c.A), 0o644)
			rt.Fatalf("harness bug: the reference inference rejects a generated program: %v\n%s", err, c.A)
		}
		var ls []string
		for l := range labels {
			ls = append(ls, l)
		}
		sort.Strings(ls)
		e.RecordN("TestSignatures", vt.Hash(c.A), interesting > 0, ls, len(c.Want), func() any { return c })
		e.Check(rt, "signatures", c, func() error { return check(c) })
	})
}

func TestReplay(t *testing.T) {
	e := vt.Get()
	e.RunReplay(t, map[string]func(json.RawMessage) error{
		"signatures": vt.Handler(check),
	})
}

// TestSurvey (development aid).
func TestSurvey(t *testing.T) {
	if os.Getenv("VERIF_SURVEY") == "" {
		t.Skip()
	}
	e := vt.Get()
	cats := map[string][]string{}
	count := 0
	rapid.Check(t, func(rt *rapid.T) {
		c, _, _, err := genCase(rt)
		count++
		key, msg := "", ""
		if err != nil {
			key, msg = "INFER: "+err.Error(), c.A
		} else if cerr := check(c); cerr != nil {
			lines := strings.Split(cerr.Error(), "\n")
			key = lines[0]
			if len(key) > 60 {
				key = key[:60]
			}
			msg = cerr.Error()
		}
		if key != "" {
			cats[key] = append(cats[key], msg)
		}
	})
	out := filepath.Join(e.Scratch, "survey")
	os.MkdirAll(out, 0o755)
	var ks []string
	for k := range cats {
		ks = append(ks, k)
	}
	sort.Slice(ks, func(i, j int) bool { return len(cats[ks[i]]) > len(cats[ks[j]]) })
	fmt.Printf("SURVEY: %d programs, %d failure categories; details in %s\n", count, len(ks), out)
	for i, k := range ks {
		best := cats[k][0]
		for _, m := range cats[k] {
			if len(m) < len(best) {
				best = m
			}
		}
		os.WriteFile(filepath.Join(out, fmt.Sprintf("cat%02d.txt", i)), []byte(k+"\n\n"+best), 0o644)
		fmt.Printf("%4d  cat%02d  %s\n", len(cats[k]), i, pipeline.Clip(k, 220))
	}
}

// TestKnown: recorded findings.
func TestKnown(t *testing.T) {
	e := vt.Get()
	defer e.Flush()
	if e.FC == "" {
		t.Skip("needs the orchestrator (VERIF_FC)")
	}
	for _, k := range e.KnownFor("C02") {
		b, err := os.ReadFile(filepath.Join(e.VerifDir, k.Reproducer))
		if err != nil {
			t.Fatalf("known finding %s: reproducer missing: %v", k.ID, err)
		}
		var fc vt.FailCase
		if err := json.Unmarshal(b, &fc); err != nil {
			t.Fatalf("known finding %s: %v", k.ID, err)
		}
		var c Case
		json.Unmarshal(fc.Case, &c)
		if err := check(c); err != nil {
			vt.PrintKnown(k)
		} else {
			t.Logf("known finding %s no longer reproduces", k.ID)
		}
		e.Record("TestKnown", vt.Hash(c.A), true, []string{"known finding " + k.ID}, nil)
	}
}
