// Reference type inference for property C02: Hindley-Milner style unification
// with occurs check over the lang AST, with Folang's n-ary function types,
// fresh instantiation of every reference to a generic function / constructor,
// and monomorphic let. It shares no code with fc.
package c02

import (
	"fmt"
	"strings"

	"verif/harness/lang"
)

// Scheme is a (possibly generic) function signature.
type Scheme struct {
	TParams []string
	Params  []*lang.Type // empty = unit parameter
	Ret     *lang.Type
}

type inferer struct {
	arith  []*lang.Type // operand types of + - * / < > <= >=: must end up int or string (Go has no such operators on a type parameter)
	n      int
	sub    map[string]*lang.Type
	funcs  map[string]*Scheme // library and earlier user functions
	recs   map[string]*lang.RecDecl
	unions map[string]*lang.UnionDecl
	ctors  map[string]*lang.UnionDecl
}

type inferErr struct{ msg string }

func (e inferErr) Error() string { return e.msg }

func ifail(format string, a ...any) { panic(inferErr{fmt.Sprintf(format, a...)}) }

func (in *inferer) fresh() *lang.Type {
	in.n++
	return lang.TVar(fmt.Sprintf("?%d", in.n))
}

func isUVar(t *lang.Type) bool { return t.K == "tvar" && strings.HasPrefix(t.Name, "?") }

func (in *inferer) prune(t *lang.Type) *lang.Type {
	for isUVar(t) {
		b, ok := in.sub[t.Name]
		if !ok {
			return t
		}
		t = b
	}
	return t
}

// resolve applies the substitution completely.
func (in *inferer) resolve(t *lang.Type) *lang.Type {
	t = in.prune(t)
	if len(t.E) == 0 {
		return t
	}
	n := &lang.Type{K: t.K, Name: t.Name}
	for _, e := range t.E {
		n.E = append(n.E, in.resolve(e))
	}
	return n
}

func (in *inferer) occurs(v string, t *lang.Type) bool {
	t = in.prune(t)
	if isUVar(t) {
		return t.Name == v
	}
	for _, e := range t.E {
		if in.occurs(v, e) {
			return true
		}
	}
	return false
}

func (in *inferer) unify(a, b *lang.Type) {
	a, b = in.prune(a), in.prune(b)
	if isUVar(a) {
		if isUVar(b) && a.Name == b.Name {
			return
		}
		if in.occurs(a.Name, b) {
			ifail("occurs check: %s in %s", a.Name, in.resolve(b))
		}
		in.sub[a.Name] = b
		return
	}
	if isUVar(b) {
		in.unify(b, a)
		return
	}
	if a.K != b.K || a.Name != b.Name || len(a.E) != len(b.E) {
		ifail("cannot unify %s with %s", in.resolve(a), in.resolve(b))
	}
	for i := range a.E {
		in.unify(a.E[i], b.E[i])
	}
}

// instantiate a scheme with fresh variables; returns its function type pieces.
func (in *inferer) instantiate(s *Scheme) ([]*lang.Type, *lang.Type) {
	m := map[string]*lang.Type{}
	for _, p := range s.TParams {
		m[p] = in.fresh()
	}
	var ps []*lang.Type
	for _, p := range s.Params {
		ps = append(ps, p.Subst(m))
	}
	return ps, s.Ret.Subst(m)
}

func funcType(ps []*lang.Type, r *lang.Type) *lang.Type {
	if len(ps) == 0 {
		ps = []*lang.Type{lang.TUnit}
	}
	return lang.TFunc(ps, r)
}

type tenv struct {
	vars   map[string]*lang.Type
	parent *tenv
}

func (e *tenv) get(n string) (*lang.Type, bool) {
	for c := e; c != nil; c = c.parent {
		if t, ok := c.vars[n]; ok {
			return t, true
		}
	}
	return nil, false
}

func (e *tenv) child() *tenv { return &tenv{vars: map[string]*lang.Type{}, parent: e} }

// apply: the type of applying something of type ft to arguments of types args.
func (in *inferer) apply(ft *lang.Type, args []*lang.Type) *lang.Type {
	ft = in.prune(ft)
	if isUVar(ft) {
		// f x y with unknown f makes f : (tx, ty) -> r
		r := in.fresh()
		in.unify(ft, lang.TFunc(args, r))
		return r
	}
	if ft.K != "func" {
		ifail("applying a non-function %s", in.resolve(ft))
	}
	ps, res := ft.Params(), ft.Result()
	if len(args) > len(ps) {
		ifail("too many arguments")
	}
	for i, a := range args {
		in.unify(ps[i], a)
	}
	if len(args) == len(ps) {
		return res
	}
	return lang.TFunc(ps[len(args):], res) // partial application: the remaining function
}

func (in *inferer) refType(name string, env *tenv) *lang.Type {
	if t, ok := env.get(name); ok {
		return t
	}
	if s, ok := in.funcs[name]; ok {
		ps, r := in.instantiate(s)
		return funcType(ps, r)
	}
	if u, ok := in.ctors[name]; ok {
		m := map[string]*lang.Type{}
		var targs []*lang.Type
		for _, p := range u.TParams {
			v := in.fresh()
			m[p] = v
			targs = append(targs, v)
		}
		ut := lang.TUnion(u.Name, targs...)
		c := u.Case(name)
		if c.Payload == nil {
			if len(u.TParams) > 0 {
				return lang.TFunc([]*lang.Type{lang.TUnit}, ut)
			}
			return ut
		}
		return lang.TFunc([]*lang.Type{c.Payload.Subst(m)}, ut)
	}
	ifail("unbound %s", name)
	return nil
}

func (in *inferer) expr(e *lang.Expr, env *tenv) *lang.Type {
	switch e.K {
	case "int":
		return lang.TInt
	case "str", "interp":
		return lang.TString
	case "bool":
		return lang.TBool
	case "unit":
		return lang.TUnit
	case "paren":
		return in.expr(e.Args[0], env)
	case "var":
		t := in.refType(e.Name, env)
		return in.explicit(e, t)
	case "call":
		ft := in.explicit(e, in.refType(e.Name, env))
		var ats []*lang.Type
		for _, a := range e.Args {
			ats = append(ats, in.expr(a, env))
		}
		return in.apply(ft, ats)
	case "not":
		in.unify(in.expr(e.Args[0], env), lang.TBool)
		return lang.TBool
	case "binop":
		l, r := in.expr(e.Args[0], env), in.expr(e.Args[1], env)
		switch e.Name {
		case "&&", "||":
			in.unify(l, lang.TBool)
			in.unify(r, lang.TBool)
			return lang.TBool
		case "=", "<>":
			in.unify(l, r)
			return lang.TBool
		case "<", ">", "<=", ">=":
			in.unify(l, r)
			in.arith = append(in.arith, l)
			return lang.TBool
		default: // + - * /
			in.unify(l, r)
			in.arith = append(in.arith, l)
			return l
		}
	case "pipe":
		x := in.expr(e.Args[0], env)
		f := in.expr(e.Args[1], env)
		return in.apply(f, []*lang.Type{x})
	case "tuple":
		var es []*lang.Type
		for _, a := range e.Args {
			es = append(es, in.expr(a, env))
		}
		return lang.TTuple(es...)
	case "slice":
		et := in.fresh()
		for _, a := range e.Args {
			in.unify(et, in.expr(a, env))
		}
		return lang.TSlice(et)
	case "reclit":
		d := in.recs[e.Name]
		m := map[string]*lang.Type{}
		var targs []*lang.Type
		for _, p := range d.TParams {
			v := in.fresh()
			m[p] = v
			targs = append(targs, v)
		}
		for _, fi := range e.Fields {
			in.unify(d.Field(fi.Name).T.Subst(m), in.expr(fi.E, env))
		}
		return lang.TRec(d.Name, targs...)
	case "field":
		rt := in.prune(in.expr(e.Args[0], env))
		if rt.K != "rec" {
			ifail("field access on a value of unknown record type")
		}
		d := in.recs[rt.Name]
		return d.FieldType(rt, e.Name)
	case "lambda":
		inner := env.child()
		var ps []*lang.Type
		for _, p := range e.Params {
			var pt *lang.Type
			if p.Annot {
				pt = p.T
			} else {
				pt = in.fresh()
			}
			inner.vars[p.Name] = pt
			ps = append(ps, pt)
		}
		return funcType(ps, in.block(e.Body, inner))
	case "if":
		in.unify(in.expr(e.Args[0], env), lang.TBool)
		t := in.block(e.Then, env)
		for _, el := range e.Elifs {
			in.unify(in.expr(el.Cond, env), lang.TBool)
			in.unify(t, in.block(el.Body, env))
		}
		if e.Else != nil {
			in.unify(t, in.block(e.Else, env))
		}
		return t
	}
	ifail("construct %s is outside the inference profile", e.K)
	return nil
}

// explicit type arguments: f<int, string>
func (in *inferer) explicit(e *lang.Expr, t *lang.Type) *lang.Type {
	if len(e.TArgs) == 0 {
		return t
	}
	if s, ok := in.funcs[e.Name]; ok {
		m := map[string]*lang.Type{}
		for i, p := range s.TParams {
			if i < len(e.TArgs) {
				m[p] = e.TArgs[i]
			}
		}
		var ps []*lang.Type
		for _, p := range s.Params {
			ps = append(ps, p.Subst(m))
		}
		return funcType(ps, s.Ret.Subst(m))
	}
	if u, ok := in.ctors[e.Name]; ok {
		m := map[string]*lang.Type{}
		for i, p := range u.TParams {
			if i < len(e.TArgs) {
				m[p] = e.TArgs[i]
			}
		}
		ut := lang.TUnion(u.Name, e.TArgs...)
		c := u.Case(e.Name)
		if c.Payload == nil {
			return lang.TFunc([]*lang.Type{lang.TUnit}, ut)
		}
		return lang.TFunc([]*lang.Type{c.Payload.Subst(m)}, ut)
	}
	return t
}

func (in *inferer) block(b *lang.Block, env *tenv) *lang.Type {
	env = env.child()
	for _, s := range b.Stmts {
		switch s.K {
		case "let":
			env.vars[s.Name] = in.expr(s.E, env) // monomorphic let
		case "letd":
			t := in.expr(s.E, env)
			var es []*lang.Type
			for range s.Names {
				es = append(es, in.fresh())
			}
			in.unify(t, lang.TTuple(es...))
			for i, n := range s.Names {
				if n != "_" {
					env.vars[n] = es[i]
				}
			}
		case "expr":
			in.expr(s.E, env)
		default:
			ifail("statement %s is outside the inference profile", s.K)
		}
	}
	return in.expr(b.Final, env)
}

// InferFunc computes the principal scheme of f given the schemes known so far.
func (in *inferer) InferFunc(f *lang.FuncDecl) (s *Scheme, err error) {
	defer func() {
		if r := recover(); r != nil {
			if ie, ok := r.(inferErr); ok {
				s, err = nil, ie
				return
			}
			panic(r)
		}
	}()
	in.sub = map[string]*lang.Type{}
	in.arith = nil
	env := &tenv{vars: map[string]*lang.Type{}}
	var ps []*lang.Type
	for _, p := range f.Params {
		var pt *lang.Type
		if p.Annot {
			pt = p.T
		} else {
			pt = in.fresh()
		}
		env.vars[p.Name] = pt
		ps = append(ps, pt)
	}
	ret := in.fresh()
	if f.RetAnnot {
		in.unify(ret, f.Ret)
	}
	// the function itself is in scope monomorphically (recursion)
	env.vars[f.Name] = funcType(ps, ret)
	in.unify(ret, in.block(f.Body, env))
	for _, t := range in.arith {
		if r := in.prune(t); r.K != "int" && r.K != "string" {
			ifail("arithmetic / ordering on an undetermined type (documented not to be inferred)")
		}
	}
	// generalise: remaining variables become T0, T1, ... by first occurrence over parameters then result
	names := map[string]string{}
	var order []string
	var visit func(t *lang.Type)
	visit = func(t *lang.Type) {
		t = in.prune(t)
		if isUVar(t) {
			if _, ok := names[t.Name]; !ok {
				names[t.Name] = fmt.Sprintf("T%d", len(order))
				order = append(order, names[t.Name])
			}
			return
		}
		for _, e := range t.E {
			visit(e)
		}
	}
	for _, p := range ps {
		visit(p)
	}
	visit(ret)
	var rename func(t *lang.Type) *lang.Type
	rename = func(t *lang.Type) *lang.Type {
		t = in.prune(t)
		if isUVar(t) {
			return lang.TVar(names[t.Name])
		}
		if len(t.E) == 0 {
			return t
		}
		n := &lang.Type{K: t.K, Name: t.Name}
		for _, e := range t.E {
			n.E = append(n.E, rename(e))
		}
		return n
	}
	out := &Scheme{TParams: order, Ret: rename(ret)}
	for _, p := range ps {
		out.Params = append(out.Params, rename(p))
	}
	return out, nil
}

// GoType is the documented Go mapping of a type (go/types.ExprString format).
func GoType(t *lang.Type) string {
	switch t.K {
	case "int", "string", "bool":
		return t.K
	case "unit":
		return ""
	case "tvar":
		return t.Name
	case "slice":
		return "[]" + GoType(t.E[0])
	case "tuple":
		var p []string
		for _, e := range t.E {
			p = append(p, GoType(e))
		}
		return fmt.Sprintf("frt.Tuple%d[%s]", len(t.E), strings.Join(p, ", "))
	case "func":
		var p []string
		for _, e := range t.Params() {
			if e.K != "unit" {
				p = append(p, GoType(e))
			}
		}
		s := "func(" + strings.Join(p, ", ") + ")"
		if t.Result().K != "unit" {
			s += " " + GoType(t.Result())
		}
		return s
	case "dict":
		return "dict.Dict[" + GoType(t.E[0]) + ", " + GoType(t.E[1]) + "]"
	case "rec", "union":
		if len(t.E) == 0 {
			return t.Name
		}
		var p []string
		for _, e := range t.E {
			p = append(p, GoType(e))
		}
		return t.Name + "[" + strings.Join(p, ", ") + "]"
	}
	return "?" + t.K
}

// GoSignature renders the scheme as the Go signature fc must emit.
func (s *Scheme) GoSignature() string {
	var sb strings.Builder
	if len(s.TParams) > 0 {
		var tp []string
		for _, t := range s.TParams {
			tp = append(tp, t+" any")
		}
		sb.WriteString("[" + strings.Join(tp, ", ") + "]")
	}
	var ps []string
	for _, p := range s.Params {
		ps = append(ps, GoType(p))
	}
	sb.WriteString("(" + strings.Join(ps, ", ") + ")")
	if s.Ret.K != "unit" {
		sb.WriteString(" " + GoType(s.Ret))
	}
	return sb.String()
}

func (s *Scheme) Equal(o *Scheme) bool { return s.GoSignature() == o.GoSignature() }
