// C03: declarations and foreign calls follow the documented Go representation.
//
// Part (i): random record / union / function / variable declarations together
// with a GENERATED GO CLIENT in the same package that uses them only through
// the documented names. Part (ii): random package_info blocks (package _ and a
// named sibling Go package) with generated Go implementations, called from
// Folang in every application arity and call form.
package c03

import (
	"encoding/json"
	"fmt"
	"os"
	"path/filepath"
	"regexp"
	"sort"
	"strconv"
	"strings"
	"testing"

	"pgregory.net/rapid"

	"verif/harness/lang"
	"verif/harness/pipeline"
	"verif/harness/vt"
)

// Case: the files of one package (and of its sibling package) and the expected stdout.
type Case struct {
	Files []pipeline.SrcFile `json:"files"`
	Want  string             `json:"want"`
}

var runner *pipeline.Runner

func check(c Case) error {
	e := vt.Get()
	if e.FC == "" {
		return fmt.Errorf("needs VERIF_FC")
	}
	if runner == nil {
		runner = pipeline.NewRunner(e.Scratch, e.Repo, e.GoCache)
	}
	for _, fc := range []string{e.FC, e.FCB} {
		if fc == "" {
			continue
		}
		res, err := runner.RunProgram(fc, []string{filepath.Join(e.Repo, "pkg", "pkg_all.foi")}, c.Files, true)
		if err != nil {
			return fmt.Errorf("harness: %v", err)
		}
		all := describe(c, res.GoSrc["gen_decl.go"])
		switch res.Stage {
		case "fc":
			return fmt.Errorf("fc rejects the declarations / foreign calls (exit %d):\n%s\n%s", res.Exit, pipeline.Clip(res.Output, 800), all)
		case "gobuild":
			return fmt.Errorf("hand-written Go using the documented names does not compile against the emitted Go:\n%s\n%s", pipeline.Clip(res.Output, 1500), all)
		case "run":
			return fmt.Errorf("the program fails at run time (exit %d):\n%s\n%s", res.Exit, pipeline.Clip(res.Stderr, 800), all)
		}
		if res.Output != c.Want {
			return fmt.Errorf("output differs from what the documented representation predicts\n--- want\n%s--- got\n%s%s", c.Want, res.Output, all)
		}
	}
	return nil
}

func describe(c Case, gen string) string {
	var sb strings.Builder
	for _, f := range c.Files {
		fmt.Fprintf(&sb, "\n----- %s\n%s", f.Name, f.Content)
	}
	if gen != "" {
		fmt.Fprintf(&sb, "\n----- emitted gen_decl.go\n%s", pipeline.Clip(gen, 5000))
	}
	return sb.String()
}

// --- types, values, renderings ----------------------------------------------------------------

type world struct {
	rt     *rapid.T
	recs   []*lang.RecDecl
	unions []*lang.UnionDecl
	labels map[string]bool
}

func (w *world) rec(n string) *lang.RecDecl {
	for _, r := range w.recs {
		if r.Name == n {
			return r
		}
	}
	return nil
}
func (w *world) union(n string) *lang.UnionDecl {
	for _, u := range w.unions {
		if u.Name == n {
			return u
		}
	}
	return nil
}

func (w *world) n(max int, label string) int { return rapid.IntRange(0, max).Draw(w.rt, label) }

// pickType: a first-order type over what is declared so far.
func (w *world) pickType(depth int) *lang.Type {
	k := w.n(9, "typeKind")
	switch {
	case k <= 1:
		return lang.TInt
	case k == 2:
		return lang.TString
	case k == 3:
		return lang.TBool
	case k == 4 && depth > 0:
		return lang.TSlice(w.pickType(depth - 1))
	case k == 5 && depth > 0:
		return lang.TTuple(w.pickType(depth-1), w.pickType(depth-1))
	case k == 6 && depth > 0 && w.n(2, "tuple3") == 0:
		return lang.TTuple(w.pickType(depth-1), w.pickType(depth-1), w.pickType(depth-1))
	case k == 7 && len(w.recs) > 0:
		r := w.recs[w.n(len(w.recs)-1, "whichRec")]
		if len(r.TParams) > 0 {
			return lang.TRec(r.Name, w.instArgs(r.TParams)...)
		}
		return lang.TRec(r.Name)
	case k == 8 && len(w.unions) > 0:
		u := w.unions[w.n(len(w.unions)-1, "whichUnion")]
		if len(u.TParams) > 0 {
			return lang.TUnion(u.Name, w.instArgs(u.TParams)...)
		}
		return lang.TUnion(u.Name)
	}
	return lang.TString
}

// instArgs: one base type per type parameter.
func (w *world) instArgs(params []string) []*lang.Type {
	var out []*lang.Type
	for range params {
		out = append(out, w.pickBase())
	}
	return out
}

func srcList(ts []*lang.Type) string {
	var p []string
	for _, t := range ts {
		p = append(p, t.Src(0))
	}
	return strings.Join(p, ", ")
}

func goList(ts []*lang.Type) string {
	var p []string
	for _, t := range ts {
		p = append(p, goType(t))
	}
	return strings.Join(p, ", ")
}

// mentionsAll: every type parameter occurs in t.
func mentionsAll(t *lang.Type, params []string) bool {
	for _, p := range params {
		if !mentions(t, p) {
			return false
		}
	}
	return true
}

func mentions(t *lang.Type, p string) bool {
	if t.K == "tvar" && t.Name == p {
		return true
	}
	for _, e := range t.E {
		if mentions(e, p) {
			return true
		}
	}
	return false
}

func (w *world) pickBase() *lang.Type {
	return []*lang.Type{lang.TInt, lang.TString, lang.TBool, lang.TSlice(lang.TInt)}[w.n(3, "baseType")]
}

// goType: the documented Go representation of a Folang type.
func goType(t *lang.Type) string {
	switch t.K {
	case "int", "string", "bool":
		return t.K
	case "slice":
		return "[]" + goType(t.E[0])
	case "tuple":
		var p []string
		for _, e := range t.E {
			p = append(p, goType(e))
		}
		return fmt.Sprintf("frt.Tuple%d[%s]", len(t.E), strings.Join(p, ", "))
	case "rec", "union":
		if len(t.E) == 0 {
			return t.Name
		}
		var p []string
		for _, e := range t.E {
			p = append(p, goType(e))
		}
		return t.Name + "[" + strings.Join(p, ", ") + "]"
	case "tvar":
		return t.Name
	}
	return "?"
}

func subst(t *lang.Type, params []string, args []*lang.Type) *lang.Type {
	m := map[string]*lang.Type{}
	for i, p := range params {
		if i < len(args) {
			m[p] = args[i]
		}
	}
	return t.Subst(m)
}

// genValue: a model value of type t.
func (w *world) genValue(t *lang.Type, depth int) lang.Value {
	switch t.K {
	case "int":
		return int64(w.n(99, "int"))
	case "string":
		return []string{"", "a", "bc", "x y", "q\"t", "é"}[w.n(5, "str")]
	case "bool":
		return w.n(1, "bool") == 1
	case "slice":
		n := w.n(2, "len")
		if depth <= 0 {
			n = 0
		}
		s := &lang.SliceV{}
		for i := 0; i < n; i++ {
			s.E = append(s.E, w.genValue(t.E[0], depth-1))
		}
		return s
	case "tuple":
		tv := &lang.TupleV{}
		for _, e := range t.E {
			tv.E = append(tv.E, w.genValue(e, depth-1))
		}
		return tv
	case "rec":
		r := w.rec(t.Name)
		v := &lang.RecV{Name: t.Name}
		for _, f := range r.Fields {
			v.F = append(v.F, w.genValue(subst(f.T, r.TParams, t.E), depth-1))
		}
		return v
	case "union":
		u := w.union(t.Name)
		c := u.Cases[w.n(len(u.Cases)-1, "case")]
		v := &lang.UnionV{Union: t.Name, Case: c.Name}
		if c.Payload != nil {
			v.Payload = w.genValue(subst(c.Payload, u.TParams, t.E), depth-1)
		}
		return v
	}
	panic("genValue " + t.String())
}

// foLit: the value as a Folang expression (argument position safe: parenthesised when needed).
func (w *world) foLit(v lang.Value, t *lang.Type) string {
	switch x := v.(type) {
	case int64:
		return strconv.FormatInt(x, 10)
	case string:
		return lang.StrLitSrc(x, "plain")
	case bool:
		return strconv.FormatBool(x)
	case *lang.SliceV:
		if len(x.E) == 0 {
			return "(slice.New<" + t.E[0].Src(0) + "> ())"
		}
		var p []string
		for _, e := range x.E {
			p = append(p, w.foLit(e, t.E[0]))
		}
		return "[" + strings.Join(p, "; ") + "]"
	case *lang.TupleV:
		var p []string
		for i, e := range x.E {
			p = append(p, w.foLit(e, t.E[i]))
		}
		return "(" + strings.Join(p, ", ") + ")"
	case *lang.RecV:
		r := w.rec(x.Name)
		var p []string
		// a literal may list its fields in any order (fields are paired by name)
		order := rapid.Permutation(seqInts(len(r.Fields))).Draw(w.rt, "literalFieldOrder")
		if len(order) > 1 && !sort.IntsAreSorted(order) {
			w.labels["record literal with permuted fields"] = true
		}
		for k, i := range order {
			f := r.Fields[i]
			n := f.Name
			if k == 0 {
				n = r.Name + "." + n // qualified: the record type is named explicitly
				if len(r.TParams) > 0 {
					n = f.Name
				}
			}
			p = append(p, n+"="+w.foLit(x.F[i], subst(f.T, r.TParams, t.E)))
		}
		return "{" + strings.Join(p, "; ") + "}"
	case *lang.UnionV:
		u := w.union(x.Union)
		if x.Payload == nil {
			if len(u.TParams) > 0 {
				return "(" + x.Case + "<" + srcList(t.E) + "> ())"
			}
			return x.Case
		}
		c := u.Case(x.Case)
		targs := ""
		if len(u.TParams) > 0 && !mentionsAll(c.Payload, u.TParams) {
			// the payload does not determine T: the type argument is written explicitly
			// (Go cannot infer it either; the documents show the same for None<int> ())
			targs = "<" + srcList(t.E) + ">"
		}
		return "(" + x.Case + targs + " " + w.foLit(x.Payload, subst(c.Payload, u.TParams, t.E)) + ")"
	}
	panic("foLit")
}

// goLit: the value built in Go through the documented names only.
func (w *world) goLit(v lang.Value, t *lang.Type) string {
	switch x := v.(type) {
	case int64:
		return strconv.FormatInt(x, 10)
	case string:
		return strconv.Quote(x)
	case bool:
		return strconv.FormatBool(x)
	case *lang.SliceV:
		var p []string
		for _, e := range x.E {
			p = append(p, w.goLit(e, t.E[0]))
		}
		return goType(t) + "{" + strings.Join(p, ", ") + "}"
	case *lang.TupleV:
		var p []string
		for i, e := range x.E {
			p = append(p, fmt.Sprintf("E%d: %s", i, w.goLit(e, t.E[i])))
		}
		return goType(t) + "{" + strings.Join(p, ", ") + "}"
	case *lang.RecV:
		r := w.rec(x.Name)
		var p []string
		for i, f := range r.Fields {
			p = append(p, f.Name+": "+w.goLit(x.F[i], subst(f.T, r.TParams, t.E)))
		}
		return goType(t) + "{" + strings.Join(p, ", ") + "}"
	case *lang.UnionV:
		u := w.union(x.Union)
		targs := ""
		if len(u.TParams) > 0 {
			targs = "[" + goList(t.E) + "]"
		}
		name := "New_" + u.Name + "_" + x.Case
		if x.Payload == nil {
			if len(u.TParams) > 0 {
				return name + targs + "()" // a function when the union is generic
			}
			return name // a package variable otherwise
		}
		c := u.Case(x.Case)
		return name + targs + "(" + w.goLit(x.Payload, subst(c.Payload, u.TParams, t.E)) + ")"
	}
	panic("goLit")
}

func mangle(t *lang.Type) string {
	r := strings.NewReplacer("[]", "S_", "*", "_x_", "<", "_of_", ">", "_fo", ", ", "_c_", " ", "", "(", "L_", ")", "_R", ".", "_d_")
	return r.Replace(t.Src(0))
}

// goDesc emits (once per type) a Go function that reads a value through the
// documented field names and renders it in the display form, and returns its name.
func (w *world) goDesc(t *lang.Type, out *strings.Builder, done map[string]bool) string {
	name := "desc_" + mangle(t)
	if done[name] {
		return name
	}
	done[name] = true
	var b strings.Builder
	fmt.Fprintf(&b, "func %s(x %s) string {\n", name, goType(t))
	switch t.K {
	case "int":
		b.WriteString("\treturn strconv.Itoa(x)\n")
	case "string":
		b.WriteString("\treturn x\n")
	case "bool":
		b.WriteString("\treturn strconv.FormatBool(x)\n")
	case "slice":
		d := w.goDesc(t.E[0], out, done)
		fmt.Fprintf(&b, "\tvar p []string\n\tfor _, e := range x {\n\t\tp = append(p, %s(e))\n\t}\n\treturn \"[\" + strings.Join(p, \" \") + \"]\"\n", d)
	case "tuple":
		var p []string
		for i, e := range t.E {
			p = append(p, fmt.Sprintf("%s(x.E%d)", w.goDesc(e, out, done), i))
		}
		fmt.Fprintf(&b, "\treturn \"{\" + %s + \"}\"\n", strings.Join(p, " + \" \" + "))
	case "rec":
		r := w.rec(t.Name)
		var p []string
		for _, f := range r.Fields {
			p = append(p, fmt.Sprintf("%s(x.%s)", w.goDesc(subst(f.T, r.TParams, t.E), out, done), f.Name))
		}
		fmt.Fprintf(&b, "\treturn \"{\" + %s + \"}\"\n", strings.Join(p, " + \" \" + "))
	case "union":
		u := w.union(t.Name)
		targs := ""
		if len(u.TParams) > 0 {
			targs = "[" + goList(t.E) + "]"
		}
		b.WriteString("\tswitch v := x.(type) {\n")
		for _, c := range u.Cases {
			fmt.Fprintf(&b, "\tcase %s_%s%s:\n", u.Name, c.Name, targs)
			if c.Payload == nil {
				fmt.Fprintf(&b, "\t\t_ = v\n\t\treturn \"(%s)\"\n", c.Name)
			} else {
				d := w.goDesc(subst(c.Payload, u.TParams, t.E), out, done)
				fmt.Fprintf(&b, "\t\treturn \"(%s: \" + %s(v.Value) + \")\"\n", c.Name, d)
			}
		}
		b.WriteString("\t}\n\treturn \"?\"\n")
	}
	b.WriteString("}\n\n")
	out.WriteString(b.String())
	return name
}

// printable by %v on the Folang side (no union below a lower-case record field)
func (w *world) printable(t *lang.Type, underLower bool) bool {
	switch t.K {
	case "union":
		if underLower {
			return false
		}
		u := w.union(t.Name)
		for _, c := range u.Cases {
			if c.Payload != nil && !w.printable(subst(c.Payload, u.TParams, t.E), underLower) {
				return false
			}
		}
	case "rec":
		r := w.rec(t.Name)
		for _, f := range r.Fields {
			low := underLower || (f.Name[0] >= 'a' && f.Name[0] <= 'z')
			if !w.printable(subst(f.T, r.TParams, t.E), low) {
				return false
			}
		}
	}
	for _, e := range t.E {
		if t.K != "rec" && t.K != "union" && !w.printable(e, underLower) {
			return false
		}
	}
	return true
}

// --- part (i): declarations + Go client -----------------------------------------------------------

func genDeclCase(rt *rapid.T) (Case, []string) {
	w := &world{rt: rt, labels: map[string]bool{}}
	var fo, goMain, goFuncs strings.Builder
	done := map[string]bool{}
	want := &strings.Builder{}
	// declarations
	ndecl := 2 + w.n(3, "ndecl")
	for i := 0; i < ndecl; i++ {
		generic := w.n(3, "generic") == 0
		if w.n(1, "isRecord") == 0 {
			r := &lang.RecDecl{Name: fmt.Sprintf("Rc%d", i)}
			switch w.n(5, "recNameShape") {
			case 0:
				r.Name = fmt.Sprintf("rc%d", i)
			case 1:
				r.Name = fmt.Sprintf("Rc_%d", i)
				w.labels["underscore in a type / case name"] = true
			}
			if generic {
				r.TParams = []string{"T"}
				w.labels["generic record"] = true
				if w.n(2, "twoTypeParams") == 0 {
					r.TParams = []string{"L", "R"}
					w.labels["two type parameters"] = true
				}
			}
			nf := 1 + w.n(3, "nfields")
			if nf < len(r.TParams) {
				nf = len(r.TParams) // every type parameter is used by a field
			}
			for j := 0; j < nf; j++ {
				fname := fmt.Sprintf("F%d%c", i, 'a'+j)
				if w.n(3, "lowerField") == 0 {
					fname = fmt.Sprintf("f%d%c", i, 'a'+j)
					w.labels["lower-case field"] = true
				}
				ft := w.pickType(2)
				if generic && (j < len(r.TParams) || w.n(2, "useT") == 0) {
					tv := lang.TVar(r.TParams[j%len(r.TParams)])
					ft = []*lang.Type{tv, lang.TSlice(tv), lang.TTuple(lang.TInt, tv)}[w.n(2, "tShape")]
				}
				r.Fields = append(r.Fields, lang.Field{Name: fname, T: ft})
			}
			w.recs = append(w.recs, r)
			fo.WriteString(lang.ItemText(&lang.TopItem{Types: []*lang.TypeDecl{{Rec: r}}}, lang.Canonical{}) + "\n")
		} else {
			u := &lang.UnionDecl{Name: fmt.Sprintf("Un%d", i)}
			// the documented names are plain concatenations: U_C, New_U_C - also when U or C contain '_'
			switch w.n(5, "unionNameShape") {
			case 0:
				u.Name = fmt.Sprintf("Un_%d", i)
				w.labels["underscore in a type / case name"] = true
			case 1:
				u.Name = fmt.Sprintf("U_n_%d", i)
				w.labels["underscore in a type / case name"] = true
			}
			if generic {
				u.TParams = []string{"T"}
				w.labels["generic union"] = true
				if w.n(2, "twoTypeParamsU") == 0 {
					u.TParams = []string{"L", "R"}
					w.labels["two type parameters"] = true
				}
			}
			nc := 1 + w.n(3, "ncases")
			if nc < len(u.TParams) {
				nc = len(u.TParams)
			}
			for j := 0; j < nc; j++ {
				c := lang.UCase{Name: fmt.Sprintf("C%d%c", i, 'a'+j)}
				if w.n(5, "caseNameShape") == 0 {
					c.Name = fmt.Sprintf("C_%d_%c", i, 'a'+j)
					w.labels["underscore in a type / case name"] = true
				}
				if w.n(2, "payload") != 0 {
					c.Payload = w.pickType(2)
					if generic && w.n(1, "payloadT") == 0 {
						tv := lang.TVar(u.TParams[w.n(len(u.TParams)-1, "whichTP")])
						c.Payload = []*lang.Type{tv, lang.TSlice(tv)}[w.n(1, "tShapeU")]
						if len(u.TParams) == 2 && w.n(3, "bothTPs") == 0 {
							c.Payload = lang.TTuple(lang.TVar("L"), lang.TVar("R"))
						}
					}
				} else {
					w.labels["case without payload"] = true
				}
				u.Cases = append(u.Cases, c)
			}
			if generic {
				// make sure every type parameter is used: case i carries parameter i as it is
				for i, tp := range u.TParams {
					u.Cases[i].Payload = lang.TVar(tp)
				}
			}
			w.unions = append(w.unions, u)
			fo.WriteString(lang.ItemText(&lang.TopItem{Types: []*lang.TypeDecl{{Union: u}}}, lang.Canonical{}) + "\n")
		}
	}
	// uses: per use a type; a value made in Folang and read in Go, a value made in Go and shown in Folang
	nuse := 3 + w.n(4, "nuse")
	for k := 0; k < nuse; k++ {
		t := w.pickType(2)
		if k < len(w.recs)+len(w.unions) {
			// every declared type is used at least once
			if k < len(w.recs) {
				r := w.recs[k]
				t = lang.TRec(r.Name)
				if len(r.TParams) > 0 {
					t = lang.TRec(r.Name, w.instArgs(r.TParams)...)
				}
			} else {
				u := w.unions[k-len(w.recs)]
				t = lang.TUnion(u.Name)
				if len(u.TParams) > 0 {
					t = lang.TUnion(u.Name, w.instArgs(u.TParams)...)
				}
			}
		}
		v1 := w.genValue(t, 2)
		v2 := w.genValue(t, 2)
		d := w.goDesc(t, &goFuncs, done)
		// (a) Folang makes, Go reads: a function with a unit parameter, and a top-level variable
		fmt.Fprintf(&fo, "let mk%d () : %s = %s\n\n", k, t.Src(0), w.foLit(v1, t))
		fmt.Fprintf(&goMain, "\tfmt.Println(\"mk%d\", %s(mk%d()))\n", k, d, k)
		fmt.Fprintf(want, "mk%d %s\n", k, lang.Show(v1))
		if w.n(1, "topVar") == 0 {
			w.labels["top-level variable"] = true
			fmt.Fprintf(&fo, "let tv%d = mk%d ()\n\n", k, k)
			// read through its address: only a package variable has one
			fmt.Fprintf(&goMain, "\tptv%d := &tv%d\n\tfmt.Println(\"tv%d\", %s(*ptv%d))\n", k, k, k, d, k)
			fmt.Fprintf(want, "tv%d %s\n", k, lang.Show(v1))
		}
		if w.n(3, "topFnVar") == 0 {
			// a top-level let of the variable form whose value is a function: still a package variable,
			// which hand-written Go may wrap (note.md: "only at the top level does it expand to a var")
			w.labels["top-level variable holding a lambda"] = true
			add := w.n(9, "fvAdd")
			fmt.Fprintf(&fo, "let fv%d = fun (x:int) -> x + %d\n\nlet usefv%d (x:int) = fv%d (fv%d x)\n\n", k, add, k, k, k)
			fmt.Fprintf(&goMain, "\t{\n\t\torig, n := fv%d, 0\n\t\tfv%d = func(x int) int { n++; return orig(x) }\n\t\tfmt.Println(\"fv%d\", usefv%d(1), n)\n\t}\n", k, k, k, k)
			fmt.Fprintf(want, "fv%d %d 2\n", k, 1+2*add)
		}
		// (b) Go makes through the documented names, Folang shows
		if w.printable(t, false) {
			fmt.Fprintf(&fo, "let show%d (v:%s) = frt.Sprintf1 \"%%v\" v\n\n", k, t.Src(0))
			fmt.Fprintf(&goMain, "\tfmt.Println(\"show%d\", show%d(%s))\n", k, k, w.goLit(v2, t))
			fmt.Fprintf(want, "show%d %s\n", k, lang.Show(v2))
			// a unit result is no result
			fmt.Fprintf(&fo, "let put%d (v:%s) = frt.Printf1 \"put%d %%v\\n\" v\n\n", k, t.Src(0), k)
			fmt.Fprintf(&goMain, "\tput%d(%s)\n", k, w.goLit(v2, t))
			fmt.Fprintf(want, "put%d %s\n", k, lang.Show(v2))
		}
		// (a') a record built from un-annotated parameters: the parameter types Go sees are the field types,
		// whatever order the literal lists the fields in
		if rv, ok := v2.(*lang.RecV); ok && t.K == "rec" {
			r := w.rec(t.Name)
			order := rapid.Permutation(seqInts(len(r.Fields))).Draw(w.rt, "ctorFieldOrder")
			var ps, inits, goArgs []string
			for j := range r.Fields {
				ps = append(ps, fmt.Sprintf("p%d", j))
				goArgs = append(goArgs, w.goLit(rv.F[j], subst(r.Fields[j].T, r.TParams, t.E)))
			}
			for _, j := range order {
				inits = append(inits, fmt.Sprintf("%s=p%d", r.Fields[j].Name, j))
			}
			w.labels["record built from un-annotated parameters"] = true
			if len(order) > 1 && !sort.IntsAreSorted(order) {
				w.labels["record built from un-annotated parameters, fields permuted"] = true
			}
			fmt.Fprintf(&fo, "let mkr%d %s = {%s}\n\n", k, strings.Join(ps, " "), strings.Join(inits, "; "))
			fmt.Fprintf(&goMain, "\tfmt.Println(\"mkr%d\", %s(mkr%d(%s)))\n", k, d, k, strings.Join(goArgs, ", "))
			fmt.Fprintf(want, "mkr%d %s\n", k, lang.Show(v2))
		}
		// (c) Go makes, Folang passes it through, Go reads
		fmt.Fprintf(&fo, "let same%d (v:%s) = v\n\n", k, t.Src(0))
		fmt.Fprintf(&goMain, "\tfmt.Println(\"same%d\", %s(same%d(%s)))\n", k, d, k, w.goLit(v2, t))
		fmt.Fprintf(want, "same%d %s\n", k, lang.Show(v2))
	}
	// functions with several parameters: parameters in order
	nfn := 1 + w.n(2, "nfn")
	for k := 0; k < nfn; k++ {
		np := 2 + w.n(2, "nparams")
		var params, goArgs, shows, foParts []string
		for j := 0; j < np; j++ {
			t := w.pickType(1)
			for !w.printable(t, false) {
				t = w.pickBase()
			}
			v := w.genValue(t, 1)
			params = append(params, fmt.Sprintf("(a%d:%s)", j, t.Src(0)))
			goArgs = append(goArgs, w.goLit(v, t))
			shows = append(shows, lang.Show(v))
			foParts = append(foParts, fmt.Sprintf("frt.Sprintf1 \"%%v\" a%d", j))
		}
		fmt.Fprintf(&fo, "let fn%d %s = %s\n\n", k, strings.Join(params, " "), strings.Join(foParts, " + \"|\" + "))
		fmt.Fprintf(&goMain, "\tfmt.Println(\"fn%d\", fn%d(%s))\n", k, k, strings.Join(goArgs, ", "))
		fmt.Fprintf(want, "fn%d %s\n", k, strings.Join(shows, "|"))
		w.labels[fmt.Sprintf("function with %d parameters", np)] = true
	}
	body := fo.String()
	imports := ""
	for _, pk := range []string{"frt", "slice"} {
		if strings.Contains(body, pk+".") {
			imports += "import " + pk + "\n"
		}
	}
	src := "package main\n\n" + imports + "\n" + body
	client := "package main\n\nimport (\n\t\"fmt\"\n\t\"strconv\"\n\t\"strings\"\n\n\t\"github.com/karino2/folang/pkg/frt\"\n)\n\nvar _ = strconv.Itoa\nvar _ = strings.Join\nvar _ frt.Tuple2[int, int]\n\n" +
		goFuncs.String() + "func main() {\n" + goMain.String() + "}\n"
	var labels []string
	for l := range w.labels {
		labels = append(labels, l)
	}
	sort.Strings(labels)
	return Case{Files: []pipeline.SrcFile{{Name: "decl.fo", Content: src}, {Name: "client.go", Content: client}}, Want: want.String()}, labels
}

func TestDeclarations(t *testing.T) {
	e := vt.Get()
	defer e.Flush()
	if e.FC == "" {
		t.Skip("needs the orchestrator (VERIF_FC)")
	}
	rapid.Check(t, func(rt *rapid.T) {
		c, labels := genDeclCase(rt)
		nt := false
		for _, l := range labels {
			if strings.HasPrefix(l, "generic") {
				nt = true
			}
		}
		e.Record("TestDeclarations", vt.HashJSON(c), nt, labels, func() any { return c })
		e.Check(rt, "package", c, func() error { return check(c) })
	})
}

func TestReplay(t *testing.T) {
	e := vt.Get()
	e.RunReplay(t, map[string]func(json.RawMessage) error{
		"package": vt.Handler(check),
	})
}

// TestSurvey (development aid).
func TestSurvey(t *testing.T) {
	if os.Getenv("VERIF_SURVEY") == "" {
		t.Skip()
	}
	e := vt.Get()
	cats := map[string][]string{}
	count := 0
	which := os.Getenv("VERIF_SURVEY")
	rapid.Check(t, func(rt *rapid.T) {
		var c Case
		if which == "ffi" {
			c, _ = genFFICase(rt)
		} else if which == "rec" {
			c, _ = genRecursiveCase(rt)
		} else {
			c, _ = genDeclCase(rt)
		}
		count++
		if cerr := check(c); cerr != nil {
			lines := strings.Split(cerr.Error(), "\n")
			key := lines[0]
			for _, l := range lines[1:] {
				if strings.HasPrefix(l, "transpile:") || strings.HasPrefix(l, "# work") {
					continue
				}
				key += " | " + reNum.ReplaceAllString(l, "N")
				break
			}
			cats[key] = append(cats[key], cerr.Error())
		}
	})
	out := filepath.Join(e.Scratch, "survey")
	os.MkdirAll(out, 0o755)
	var ks []string
	for k := range cats {
		ks = append(ks, k)
	}
	sort.Slice(ks, func(i, j int) bool { return len(cats[ks[i]]) > len(cats[ks[j]]) })
	fmt.Printf("SURVEY: %d packages, %d failure categories; details in %s\n", count, len(ks), out)
	for i, k := range ks {
		best := cats[k][0]
		for _, m := range cats[k] {
			if len(m) < len(best) {
				best = m
			}
		}
		os.WriteFile(filepath.Join(out, fmt.Sprintf("cat%02d.txt", i)), []byte(k+"\n\n"+best), 0o644)
		fmt.Printf("%4d  cat%02d  %s\n", len(cats[k]), i, pipeline.Clip(k, 220))
	}
}

var reNum = regexp.MustCompile(`[0-9]+`)

// --- part (ii): package_info and foreign calls ---------------------------------------------------------

type fval struct {
	k  string // int string bool ints strs handle
	i  int
	s  string
	b  bool
	is []int
	ss []string
}

func (v fval) sprint() string { // what fmt.Sprint prints for the Go value
	switch v.k {
	case "int":
		return strconv.Itoa(v.i)
	case "string":
		return v.s
	case "bool":
		return strconv.FormatBool(v.b)
	case "ints":
		var p []string
		for _, x := range v.is {
			p = append(p, strconv.Itoa(x))
		}
		return "[" + strings.Join(p, " ") + "]"
	case "strs":
		return "[" + strings.Join(v.ss, " ") + "]"
	case "handle":
		return "{" + v.s + "}"
	case "raw":
		return v.s
	}
	return "?"
}

func (v fval) fo() string { // Folang literal (argument position)
	switch v.k {
	case "int":
		return strconv.Itoa(v.i)
	case "string":
		return lang.StrLitSrc(v.s, "plain")
	case "bool":
		return strconv.FormatBool(v.b)
	case "ints":
		var p []string
		for _, x := range v.is {
			p = append(p, strconv.Itoa(x))
		}
		return "[" + strings.Join(p, "; ") + "]"
	case "strs":
		var p []string
		for _, x := range v.ss {
			p = append(p, lang.StrLitSrc(x, "plain"))
		}
		return "[" + strings.Join(p, "; ") + "]"
	}
	return "?"
}

var fTypes = map[string][2]string{ // kind -> Folang type, Go type
	"int": {"int", "int"}, "string": {"string", "string"}, "bool": {"bool", "bool"},
	"ints": {"[]int", "[]int"}, "strs": {"[]string", "[]string"}, "handle": {"Handle", "Handle"},
}

type ffn struct {
	pkg     string // "_" or "ext"
	name    string
	tparams []string // type parameter names
	params  []string // kinds, or "T:<kind>" = type parameter T instantiated at kind
	ret     string   // kind, "unit", "T:<kind>", or "zeros" ([]R for the phantom parameter)
	// phantom: the function has a type parameter R that occurs only in its result type []R and is
	// instantiated at this kind. Go cannot infer it, and the printed zero values differ per kind, so
	// the explicit type argument has to reach the emitted call in every call form.
	phantom string
}

func kindOf(p string) string {
	if i := strings.IndexByte(p, ':'); i >= 0 {
		return p[i+1:]
	}
	return p
}

func foTypeOf(p string, qual string) string {
	if i := strings.IndexByte(p, ':'); i >= 0 {
		return p[:i]
	}
	if p == "unit" {
		return "()"
	}
	if p == "handle" {
		return "Handle" // unqualified inside its own package_info block
	}
	if p == "zeros" {
		return "[]R"
	}
	return fTypes[p][0]
}

func goTypeOf(p string) string {
	if i := strings.IndexByte(p, ':'); i >= 0 {
		return p[:i]
	}
	if p == "zeros" {
		return "[]R"
	}
	return fTypes[p][1]
}

func (w *world) fvalOf(kind string) fval {
	switch kind {
	case "int":
		return fval{k: "int", i: w.n(99, "fi")}
	case "string":
		return fval{k: "string", s: []string{"a", "bc", "x y", "", "é"}[w.n(4, "fs")]}
	case "bool":
		return fval{k: "bool", b: w.n(1, "fb") == 1}
	case "ints":
		return fval{k: "ints", is: []int{w.n(9, "fis"), w.n(9, "fis")}[:1+w.n(1, "fisn")]}
	case "strs":
		return fval{k: "strs", ss: []string{"p", "q r"}[:1+w.n(1, "fssn")]}
	}
	return fval{k: "int"}
}

// result of the generated Go implementation
func (f ffn) result(args []fval) fval {
	var p []string
	for _, a := range args {
		p = append(p, a.sprint())
	}
	desc := f.name + "(" + strings.Join(p, ",") + ")"
	switch kindOf(f.ret) {
	case "string":
		if strings.HasPrefix(f.ret, "T:") || strings.HasPrefix(f.ret, "U:") {
			break
		}
		return fval{k: "string", s: desc}
	}
	if i := strings.IndexByte(f.ret, ':'); i >= 0 {
		// returns the first argument whose type is that type parameter
		for j, pr := range f.params {
			if strings.HasPrefix(pr, f.ret[:i+1]) {
				return args[j]
			}
		}
	}
	switch f.ret {
	case "zeros":
		return fval{k: "raw", s: map[string]string{"int": "[0 0]", "string": "[ ]", "bool": "[false false]"}[f.phantom]}
	case "int":
		return fval{k: "int", i: len(desc)}
	case "bool":
		return fval{k: "bool", b: len(desc)%2 == 0}
	case "ints":
		return fval{k: "ints", is: []int{len(desc), len(args)}}
	case "strs":
		return fval{k: "strs", ss: []string{desc, "end"}}
	case "handle":
		return fval{k: "handle", s: desc}
	}
	return fval{k: "unit"}
}

func (f ffn) goImpl() string {
	var b strings.Builder
	tp := ""
	if len(f.tparams) > 0 {
		var ps []string
		for _, t := range f.tparams {
			ps = append(ps, t+" any")
		}
		tp = "[" + strings.Join(ps, ", ") + "]"
	}
	var ps, names []string
	for i, p := range f.params {
		ps = append(ps, fmt.Sprintf("a%d %s", i, goTypeOf(p)))
		names = append(names, fmt.Sprintf("fmt.Sprint(a%d)", i))
	}
	ret := ""
	if f.ret != "unit" {
		ret = " " + goTypeOf(f.ret)
	}
	fmt.Fprintf(&b, "func %s%s(%s)%s {\n", f.name, tp, strings.Join(ps, ", "), ret)
	fmt.Fprintf(&b, "\tparts := []string{%s}\n", strings.Join(names, ", "))
	fmt.Fprintf(&b, "\tdesc := %q + \"(\" + strings.Join(parts, \",\") + \")\"\n", f.name)
	b.WriteString("\tfmt.Println(\"call\", desc)\n")
	switch {
	case f.ret == "unit":
	case strings.Contains(f.ret, ":"):
		for j, pr := range f.params {
			if strings.HasPrefix(pr, f.ret[:strings.IndexByte(f.ret, ':')+1]) {
				fmt.Fprintf(&b, "\treturn a%d\n", j)
				break
			}
		}
	case f.ret == "string":
		b.WriteString("\treturn desc\n")
	case f.ret == "int":
		b.WriteString("\treturn len(desc)\n")
	case f.ret == "bool":
		b.WriteString("\treturn len(desc)%2 == 0\n")
	case f.ret == "ints":
		fmt.Fprintf(&b, "\treturn []int{len(desc), %d}\n", len(f.params))
	case f.ret == "strs":
		b.WriteString("\treturn []string{desc, \"end\"}\n")
	case f.ret == "handle":
		b.WriteString("\treturn Handle{S: desc}\n")
	case f.ret == "zeros":
		b.WriteString("\treturn make([]R, 2)\n")
	}
	b.WriteString("}\n\n")
	return b.String()
}

func (f ffn) sig() string {
	var ps []string
	for _, p := range f.params {
		ps = append(ps, foTypeOf(p, f.pkg))
	}
	if len(ps) == 0 {
		ps = []string{"()"}
	}
	ps = append(ps, foTypeOf(f.ret, f.pkg))
	tp := ""
	if len(f.tparams) > 0 {
		tp = "<" + strings.Join(f.tparams, ", ") + ">"
	}
	return fmt.Sprintf("  let %s%s: %s", f.name, tp, strings.Join(ps, "->"))
}

func (f ffn) callee() string {
	if f.pkg == "_" {
		return f.name
	}
	return f.pkg + "." + f.name
}

func genFFICase(rt *rapid.T) (Case, []string) {
	w := &world{rt: rt, labels: map[string]bool{}}
	var fns []ffn
	kinds := []string{"int", "string", "bool", "ints", "strs"}
	nf := 2 + w.n(4, "nforeign")
	for i := 0; i < nf; i++ {
		f := ffn{pkg: []string{"_", "ext"}[w.n(1, "pkg")], name: fmt.Sprintf("Fn%d", i)}
		if f.pkg == "_" && w.n(1, "lowerName") == 0 {
			f.name = fmt.Sprintf("fn%d", i)
		}
		ar := w.n(4, "arity") // 0 = unit parameter
		generic := w.n(2, "genericFn") == 0 && ar > 0
		if generic {
			f.tparams = []string{"T"}
			if w.n(2, "twoParams") == 0 && ar > 1 {
				f.tparams = []string{"T", "U"}
			}
		}
		for j := 0; j < ar; j++ {
			k := kinds[w.n(len(kinds)-1, "pkind")]
			if generic && j < len(f.tparams) {
				k = f.tparams[j] + ":" + k
			}
			f.params = append(f.params, k)
		}
		f.ret = append(kinds, "unit", "handle")[w.n(len(kinds)+1, "rkind")]
		if generic && w.n(1, "retT") == 0 {
			f.ret = f.params[0]
		}
		if !generic && w.n(3, "phantom") == 0 {
			f.tparams = []string{"R"}
			f.phantom = []string{"int", "string", "bool"}[w.n(2, "phantomAt")]
			f.ret = "zeros"
		}
		fns = append(fns, f)
	}
	// a consumer of handles in each package that produces one
	for _, pk := range []string{"_", "ext"} {
		has := false
		for _, f := range fns {
			if f.pkg == pk && f.ret == "handle" {
				has = true
			}
		}
		if has {
			fns = append(fns, ffn{pkg: pk, name: "Desc" + map[string]string{"_": "L", "ext": "E"}[pk], params: []string{"string", "handle"}, ret: "string"})
		}
	}
	var fo, main strings.Builder
	want := &strings.Builder{}
	for _, pk := range []string{"ext", "_"} {
		var sigs []string
		usesHandle := false
		for _, f := range fns {
			if f.pkg == pk {
				sigs = append(sigs, f.sig())
				if f.ret == "handle" || strings.Contains(strings.Join(f.params, " "), "handle") {
					usesHandle = true
				}
			}
		}
		if len(sigs) == 0 {
			continue
		}
		fmt.Fprintf(&fo, "package_info %s =\n", pk)
		if usesHandle {
			fo.WriteString("  type Handle\n")
		}
		fo.WriteString(strings.Join(sigs, "\n") + "\n\n")
	}
	tmp := 0
	say := func(format string, a ...any) { fmt.Fprintf(&main, "  "+format+"\n", a...) }
	for _, f := range fns {
		n := len(f.params)
		mkArgs := func() ([]fval, []string) {
			var vs []fval
			var ts []string
			for _, p := range f.params {
				if kindOf(p) == "handle" {
					vs = append(vs, fval{k: "handle"})
					ts = append(ts, "")
					continue
				}
				v := w.fvalOf(kindOf(p))
				vs = append(vs, v)
				ts = append(ts, v.fo())
			}
			return vs, ts
		}
		if len(f.params) == 2 && f.params[1] == "handle" {
			// Desc: feed it a handle made by a producer of the same package
			for _, pr := range fns {
				if pr.pkg == f.pkg && pr.ret == "handle" && !strings.Contains(strings.Join(pr.params, " "), ":") {
					var pargs []fval
					var ptxt []string
					for _, p := range pr.params {
						v := w.fvalOf(kindOf(p))
						pargs = append(pargs, v)
						ptxt = append(ptxt, v.fo())
					}
					if len(ptxt) == 0 {
						ptxt = []string{"()"}
					}
					h := pr.result(pargs)
					tmp++
					say("let h%d = %s %s", tmp, pr.callee(), strings.Join(ptxt, " "))
					say("h%d |> %s \"via pipe\" |> frt.Println", tmp, f.callee())
					fmt.Fprintf(want, "call %s\n", describeCall(pr, pargs))
					r := f.result([]fval{{k: "string", s: "via pipe"}, h})
					fmt.Fprintf(want, "call %s\n%s\n", describeCall(f, []fval{{k: "string", s: "via pipe"}, h}), r.sprint())
					w.labels["opaque type passed between foreign functions"] = true
					break
				}
			}
			continue
		}
		targs := ""
		if f.phantom != "" {
			targs = "<" + f.phantom + ">"
			w.labels["type parameter only in the result, instantiated explicitly"] = true
		} else if len(f.tparams) > 0 && w.n(1, "explicitTargs") == 0 {
			var ts []string
			for i := range f.tparams {
				ts = append(ts, fTypes[kindOf(f.params[i])][0])
			}
			targs = "<" + strings.Join(ts, ", ") + ">"
			w.labels["explicit type arguments"] = true
		}
		callee := f.callee() + targs
		printIt := func(expr string) {
			if f.ret == "unit" {
				say("%s", expr)
			} else {
				say("frt.Printf1 \"%%v\\n\" (%s)", expr)
			}
		}
		expect := func(args []fval) {
			fmt.Fprintf(want, "call %s\n", describeCall(f, args))
			if f.ret != "unit" {
				fmt.Fprintf(want, "%s\n", f.result(args).sprint())
			}
		}
		// direct, full application
		vs, ts := mkArgs()
		if n == 0 {
			printIt(callee + " ()")
			expect(nil)
			w.labels["unit parameter"] = true
			continue
		}
		printIt(callee + " " + strings.Join(ts, " "))
		expect(vs)
		// every partial arity through a let-bound partial application
		for k := 1; k < n; k++ {
			vs, ts := mkArgs()
			tmp++
			say("let pa%d = %s %s", tmp, callee, strings.Join(ts[:k], " "))
			printIt(fmt.Sprintf("pa%d %s", tmp, strings.Join(ts[k:], " ")))
			expect(vs)
			w.labels[fmt.Sprintf("let-bound partial application %d of %d", k, n)] = true
			if n >= 3 {
				w.labels["arity >= 3 applied partially"] = true
			}
		}
		// pipe stage: the last argument comes through the pipe
		{
			vs, ts := mkArgs()
			stage := callee
			if n > 1 {
				stage += " " + strings.Join(ts[:n-1], " ")
			}
			if f.ret == "unit" {
				say("%s |> %s", ts[n-1], stage)
			} else {
				tmp++
				say("let pr%d = %s |> %s", tmp, ts[n-1], stage)
				say("frt.Printf1 \"%%v\\n\" pr%d", tmp)
			}
			expect(vs)
			w.labels["pipe stage"] = true
		}
		// higher-order argument
		if lastK := kindOf(f.params[n-1]); lastK == "int" || lastK == "string" {
			vs, ts := mkArgs()
			second := w.fvalOf(lastK)
			stage := callee
			if n > 1 {
				stage = "(" + callee + " " + strings.Join(ts[:n-1], " ") + ")"
			}
			vs2 := append(append([]fval{}, vs[:n-1]...), second)
			if f.ret == "unit" {
				say("slice.Iter %s [%s; %s]", stage, ts[n-1], second.fo())
				expect(vs)
				expect(vs2)
			} else {
				say("frt.Printf1 \"%%v\\n\" (slice.Map %s [%s; %s])", stage, ts[n-1], second.fo())
				fmt.Fprintf(want, "call %s\ncall %s\n", describeCall(f, vs), describeCall(f, vs2))
				fmt.Fprintf(want, "[%s %s]\n", f.result(vs).sprint(), f.result(vs2).sprint())
			}
			w.labels["higher-order argument"] = true
		}
	}
	if main.Len() == 0 {
		say("frt.Println \"nothing\"")
		want.WriteString("nothing\n")
	}
	hasExt := false
	for _, f := range fns {
		if f.pkg == "ext" {
			hasExt = true
		}
	}
	src := "package main\n\nimport frt\n"
	if strings.Contains(main.String(), "slice.") {
		src += "import slice\n"
	}
	if hasExt {
		src += "import \"@PKG@/ext\"\n"
	}
	src += "\n" + fo.String() + "let main () =\n" + main.String()
	// Go side
	var local, ext strings.Builder
	local.WriteString("package main\n\nimport (\n\t\"fmt\"\n\t\"strings\"\n)\n\nvar _ = fmt.Sprint\nvar _ = strings.Join\n\ntype Handle struct{ S string }\n\n")
	ext.WriteString("package ext\n\nimport (\n\t\"fmt\"\n\t\"strings\"\n)\n\nvar _ = fmt.Sprint\nvar _ = strings.Join\n\ntype Handle struct{ S string }\n\n")
	for _, f := range fns {
		if f.pkg == "_" {
			local.WriteString(f.goImpl())
		} else {
			ext.WriteString(f.goImpl())
		}
	}
	files := []pipeline.SrcFile{{Name: "decl.fo", Content: src}, {Name: "client.go", Content: local.String()}}
	if hasExt {
		files = append(files, pipeline.SrcFile{Name: "ext/ext.go", Content: ext.String()})
	}
	var labels []string
	for l := range w.labels {
		labels = append(labels, l)
	}
	sort.Strings(labels)
	return Case{Files: files, Want: want.String()}, labels
}

func describeCall(f ffn, args []fval) string {
	var p []string
	for _, a := range args {
		p = append(p, a.sprint())
	}
	return f.name + "(" + strings.Join(p, ",") + ")"
}

func TestForeignCalls(t *testing.T) {
	e := vt.Get()
	defer e.Flush()
	if e.FC == "" {
		t.Skip("needs the orchestrator (VERIF_FC)")
	}
	rapid.Check(t, func(rt *rapid.T) {
		c, labels := genFFICase(rt)
		nt := false
		for _, l := range labels {
			if l == "arity >= 3 applied partially" {
				nt = true
			}
		}
		e.Record("TestForeignCalls", vt.HashJSON(c), nt, labels, func() any { return c })
		e.Check(rt, "package", c, func() error { return check(c) })
	})
}

func TestShowFFI(t *testing.T) {
	if os.Getenv("VERIF_SHOW") == "" {
		t.Skip()
	}
	rapid.Check(t, func(rt *rapid.T) {
		c, _ := genFFICase(rt)
		fmt.Println(describe(c, ""), "\n----- want\n"+c.Want)
	})
}

// --- part (iii): self-referential and `and`-group declarations ------------------------------------------
// A field or payload may mention the type being defined (or a later type of the same `and` group)
// below any type constructor: slice, tuple, generic user record / union, external generic type. The
// Go client states, per field and payload, the documented Go type in a function signature, so the
// package only compiles if every reference was resolved to the named type.

type recRef struct {
	fo  string // Folang type text with %s for the referenced type name
	go_ string
	// breaksCycle: the wrapper is a reference type in Go (slice, map wrapper, interface), so a record may contain itself through it
	breaksCycle bool
}

var refWrappers = []recRef{
	{"[]%s", "[]%s", true},
	{"dict.Dict<string, %s>", "dict.Dict[string, %s]", true},
	{"[]Bx<%s>", "[]Bx[%s]", true},
	{"Op<%s>", "Op[%s]", true},
	{"int*[]%s", "frt.Tuple2[int, []%s]", true},
	{"Op<int>*Op<%s>", "frt.Tuple2[Op[int], Op[%s]]", true},
	{"[]dict.Dict<int, %s>", "[]dict.Dict[int, %s]", true},
	{"Op<[]%s>", "Op[[]%s]", true},
	{"[](string*%s)", "[]frt.Tuple2[string, %s]", true},
	{"dict.Dict<string, []Bx<%s>>", "dict.Dict[string, []Bx[%s]]", true},
	// value embeddings: fine below a union case (the union is an interface) and for forward references to another type
	{"%s", "%s", false},
	{"Bx<%s>", "Bx[%s]", false},
	{"%s*int", "frt.Tuple2[%s, int]", false},
	{"Bx<Bx<%s>>", "Bx[Bx[%s]]", false},
}

func genRecursiveCase(rt *rapid.T) (Case, []string) {
	w := &world{rt: rt, labels: map[string]bool{}}
	var fo, goChk strings.Builder
	fo.WriteString("type Bx<T> = {BxV: T; BxN: int}\n\ntype Op<T> =\n| OSome of T\n| ONone\n\n")
	chk := 0
	assert := func(recv, field, goT string) {
		chk++
		fmt.Fprintf(&goChk, "func chk%d(x %s) %s { return x.%s }\n", chk, recv, goT, field)
	}
	ngroups := 1 + w.n(2, "ngroups")
	tn := 0
	for gi := 0; gi < ngroups; gi++ {
		size := 1 + w.n(2, "groupSize") // 1 = a single self-referential type, >1 = an `and` group
		var names []string
		var isRec []bool
		for i := 0; i < size; i++ {
			tn++
			names = append(names, fmt.Sprintf("Ty%d", tn))
			isRec = append(isRec, w.n(1, "isRec") == 0)
		}
		for i := 0; i < size; i++ {
			kw := "type"
			if i > 0 {
				kw = "and"
			}
			// what this declaration may refer to: itself and every member of its group (earlier or later)
			pickRef := func(selfOK bool) (string, bool) {
				j := w.n(size-1, "refTarget")
				return names[j], j == i
			}
			if isRec[i] {
				nf := 1 + w.n(2, "nRecFields")
				var fs []string
				for k := 0; k < nf; k++ {
					target, self := pickRef(true)
					var wr recRef
					for {
						wr = refWrappers[w.n(len(refWrappers)-1, "wrapper")]
						// a record may contain itself (or a record that contains it) only through a reference type
						if wr.breaksCycle {
							break
						}
						if !self && !isRec[indexOf(names, target)] {
							break // by value, but the target is a union (an interface)
						}
					}
					fname := fmt.Sprintf("F%d%c", tn-size+i+1, 'a'+k)
					fs = append(fs, fmt.Sprintf("%s: %s", fname, fmt.Sprintf(wr.fo, target)))
					assert(names[i], fname, fmt.Sprintf(wr.go_, target))
					w.labels["reference below: "+strings.ReplaceAll(wr.fo, "%s", "X")] = true
					if self {
						w.labels["self reference"] = true
					} else {
						w.labels["reference inside an and-group"] = true
					}
				}
				fs = append(fs, fmt.Sprintf("N%d: int", tn-size+i+1))
				fmt.Fprintf(&fo, "%s %s = {%s}\n", kw, names[i], strings.Join(fs, "; "))
			} else {
				nc := 1 + w.n(2, "nCases")
				fmt.Fprintf(&fo, "%s %s =\n", kw, names[i])
				for k := 0; k < nc; k++ {
					target, self := pickRef(true)
					wr := refWrappers[w.n(len(refWrappers)-1, "wrapperU")]
					cname := fmt.Sprintf("C%d%c", tn-size+i+1, 'a'+k)
					fmt.Fprintf(&fo, "| %s of %s\n", cname, fmt.Sprintf(wr.fo, target))
					assert(names[i]+"_"+cname, "Value", fmt.Sprintf(wr.go_, target))
					w.labels["reference below: "+strings.ReplaceAll(wr.fo, "%s", "X")] = true
					if self {
						w.labels["self reference"] = true
					} else {
						w.labels["reference inside an and-group"] = true
					}
				}
				fmt.Fprintf(&fo, "| C%dz\n", tn-size+i+1)
			}
		}
		fo.WriteString("\n")
	}
	src := "package main\n\nimport frt\nimport dict\n\n" + fo.String() + "let hello () = frt.Println \"ok\"\n\nlet keep () = dict.New<string, int> ()\n"
	client := "package main\n\nimport (\n\t\"github.com/karino2/folang/pkg/dict\"\n\t\"github.com/karino2/folang/pkg/frt\"\n)\n\nvar _ dict.Dict[int, int]\nvar _ frt.Tuple2[int, int]\n\n" +
		goChk.String() + "\nfunc main() { hello() }\n"
	var labels []string
	for l := range w.labels {
		labels = append(labels, l)
	}
	sort.Strings(labels)
	return Case{Files: []pipeline.SrcFile{{Name: "decl.fo", Content: src}, {Name: "client.go", Content: client}}, Want: "ok\n"}, labels
}

func indexOf(xs []string, x string) int {
	for i, y := range xs {
		if y == x {
			return i
		}
	}
	return -1
}

func TestRecursiveDeclarations(t *testing.T) {
	e := vt.Get()
	defer e.Flush()
	if e.FC == "" {
		t.Skip("needs the orchestrator (VERIF_FC)")
	}
	rapid.Check(t, func(rt *rapid.T) {
		c, labels := genRecursiveCase(rt)
		e.Record("TestRecursiveDeclarations", vt.HashJSON(c), true, labels, func() any { return c })
		e.Check(rt, "package", c, func() error { return check(c) })
	})
}

func seqInts(n int) []int {
	out := make([]int, n)
	for i := range out {
		out[i] = i
	}
	return out
}
