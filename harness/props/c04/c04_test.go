// C04: the checked-in generated Go is a fixed point of the self-hosted
// compiler. The domain is finite and is enumerated completely: every Folang
// source with a checked-in generated counterpart x compiler generations 1, 2.
package c04

import (
	"encoding/json"
	"fmt"
	"go/ast"
	"go/parser"
	"go/token"
	"os"
	"path/filepath"
	"regexp"
	"sort"
	"strings"
	"testing"
	"time"

	"verif/harness/pipeline"
	"verif/harness/vt"
)

type Mismatch struct {
	Generation int    `json:"generation"`
	File       string `json:"file"`
	What       string `json:"what"`
}

type Case struct {
	Note       string     `json:"note"`
	Mismatches []Mismatch `json:"mismatches"`
}

// fcArgs extracts the file list of the `./fc …` line of a recipe script.
func fcArgs(script string) ([]string, error) {
	b, err := os.ReadFile(script)
	if err != nil {
		return nil, err
	}
	pkgInfo := ""
	re := regexp.MustCompile(`(?m)^PKG_INFO=(\S+)`)
	if m := re.FindStringSubmatch(string(b)); m != nil {
		pkgInfo = m[1]
	}
	for _, line := range strings.Split(string(b), "\n") {
		line = strings.TrimSpace(line)
		if strings.HasPrefix(line, "./fc ") {
			var out []string
			for _, f := range strings.Fields(line)[1:] {
				out = append(out, strings.ReplaceAll(f, "$PKG_INFO", pkgInfo))
			}
			return out, nil
		}
	}
	return nil, fmt.Errorf("no ./fc line in %s", script)
}

func firstDiff(a, b string) string {
	la, lb := strings.Split(a, "\n"), strings.Split(b, "\n")
	for i := 0; i < len(la) || i < len(lb); i++ {
		var x, y string
		if i < len(la) {
			x = la[i]
		}
		if i < len(lb) {
			y = lb[i]
		}
		if x != y {
			return fmt.Sprintf("line %d: regenerated %q, expected %q", i+1, x, y)
		}
	}
	return "no textual difference?"
}

// countDefs returns the number of top-level declarations of a Go file.
func countDefs(path string) int {
	fset := token.NewFileSet()
	f, err := parser.ParseFile(fset, path, nil, 0)
	if err != nil {
		return 0
	}
	n := 0
	for _, d := range f.Decls {
		if gd, ok := d.(*ast.GenDecl); ok && gd.Tok == token.IMPORT {
			continue
		}
		n++
	}
	return n
}

type run struct {
	e           *vt.Env
	mism        []Mismatch
	comparisons int
}

// regenerate runs the repository's recipes with the given fc binary inside a
// fresh copy of the snapshot and returns that copy's path.
func (r *run) regenerate(gen int, fc string, name string) (string, error) {
	e := r.e
	w := filepath.Join(e.Scratch, name)
	if err := pipeline.CopyTree(e.Repo, w); err != nil {
		return "", err
	}
	// (a) compiler sources
	args, err := fcArgs(filepath.Join(w, "fc", "fc_all.sh"))
	if err != nil {
		return "", err
	}
	removeGen(filepath.Join(w, "fc"), args)
	res := pipeline.RunFC(fc, filepath.Join(w, "fc"), 5*time.Minute, args...)
	if res.Exit != 0 || res.TimedOut {
		r.mism = append(r.mism, Mismatch{gen, "fc/*.fo", "fc failed on the compiler's own sources: " + pipeline.Clip(res.Combined(), 1500)})
	}
	// (b) samples
	b, err := os.ReadFile(filepath.Join(w, "samples", "filelist.txt"))
	if err != nil {
		return "", err
	}
	sargs, err := fcArgs(filepath.Join(w, "samples", "myfc.sh"))
	if err != nil {
		return "", err
	}
	for _, line := range strings.Split(string(b), "\n") {
		name := strings.TrimSpace(line)
		if i := strings.IndexByte(name, ' '); i >= 0 {
			name = name[:i]
		}
		if name == "" {
			continue
		}
		var a []string
		for _, x := range sargs {
			a = append(a, strings.ReplaceAll(x, "$1", name))
		}
		removeGen(filepath.Join(w, "samples"), a)
		res := pipeline.RunFC(fc, filepath.Join(w, "samples"), time.Minute, a...)
		if res.Exit != 0 || res.TimedOut {
			r.mism = append(r.mism, Mismatch{gen, "samples/" + name, "fc failed: " + pipeline.Clip(res.Combined(), 1500)})
		}
	}
	// (c) the tool
	targs, err := fcArgs(filepath.Join(w, "cmd", "build_sample_md", "fc.sh"))
	if err != nil {
		return "", err
	}
	var ta []string
	for _, x := range targs {
		ta = append(ta, strings.ReplaceAll(x, "$1", "build_sample_md.fo"))
	}
	removeGen(filepath.Join(w, "cmd", "build_sample_md"), ta)
	res = pipeline.RunFC(fc, filepath.Join(w, "cmd", "build_sample_md"), time.Minute, ta...)
	if res.Exit != 0 || res.TimedOut {
		r.mism = append(r.mism, Mismatch{gen, "cmd/build_sample_md/build_sample_md.fo", "fc failed: " + pipeline.Clip(res.Combined(), 1500)})
	}
	// gofmt everything regenerated
	var gens []string
	for _, d := range []string{"fc", "samples", "cmd/build_sample_md"} {
		m, _ := filepath.Glob(filepath.Join(w, d, "gen_*.go"))
		gens = append(gens, m...)
	}
	if fr := pipeline.Gofmt(gens...); fr.Exit != 0 {
		r.mism = append(r.mism, Mismatch{gen, "gen_*.go", "gofmt rejects regenerated output: " + pipeline.Clip(fr.Combined(), 1500)})
	}
	return w, nil
}

// removeGen deletes the gen_X.go the given .fo arguments are expected to
// produce, so that a file that is silently not written is noticed.
func removeGen(dir string, args []string) {
	for _, a := range args {
		if strings.HasSuffix(a, ".fo") {
			os.Remove(filepath.Join(dir, filepath.Dir(a), "gen_"+strings.TrimSuffix(filepath.Base(a), ".fo")+".go"))
		}
	}
}

// compareTree compares every gen_*.go (and optionally README.md) of the
// regenerated copy w with the reference tree ref.
func (r *run) compareTree(gen int, w, ref string, label string) {
	for _, d := range []string{"fc", "samples", "cmd/build_sample_md"} {
		want, _ := filepath.Glob(filepath.Join(ref, d, "gen_*.go"))
		got, _ := filepath.Glob(filepath.Join(w, d, "gen_*.go"))
		wantSet := map[string]bool{}
		for _, p := range want {
			wantSet[filepath.Base(p)] = true
		}
		for _, p := range got {
			if !wantSet[filepath.Base(p)] {
				r.mism = append(r.mism, Mismatch{gen, d + "/" + filepath.Base(p), "regeneration wrote a file that is not checked in"})
			}
		}
		for _, p := range want {
			rel := d + "/" + filepath.Base(p)
			if d == "samples" && !r.listed(ref, filepath.Base(p)) {
				continue // not in filelist.txt: outside the property's domain
			}
			a, err := os.ReadFile(filepath.Join(w, rel))
			if err != nil {
				r.mism = append(r.mism, Mismatch{gen, rel, "regeneration did not write this file"})
				continue
			}
			b, _ := os.ReadFile(p)
			r.comparisons++
			nd := countDefs(p)
			r.e.Record("TestFixedPoint", vt.Hash(label, rel, string(b)), nd >= 1, []string{fmt.Sprintf("generation %d", gen), "dir:" + d}, func() any {
				return map[string]any{"generation": gen, "file": rel, "top_level_definitions": nd, "bytes": len(b)}
			})
			if string(a) != string(b) {
				r.mism = append(r.mism, Mismatch{gen, rel, firstDiff(string(a), string(b))})
			}
		}
	}
}

var listedCache map[string]bool

func (r *run) listed(ref, genName string) bool {
	if listedCache == nil {
		listedCache = map[string]bool{}
		b, _ := os.ReadFile(filepath.Join(ref, "samples", "filelist.txt"))
		for _, line := range strings.Split(string(b), "\n") {
			name := strings.TrimSpace(line)
			if i := strings.IndexByte(name, ' '); i >= 0 {
				name = name[:i]
			}
			if name != "" {
				listedCache["gen_"+strings.TrimSuffix(name, ".fo")+".go"] = true
			}
		}
	}
	return listedCache[genName]
}

func (r *run) readme(gen int, w, ref, bsm string) {
	os.Remove(filepath.Join(w, "samples", "README.md"))
	res := pipeline.Run(pipeline.Opts{Dir: filepath.Join(w, "samples"), Timeout: time.Minute, VLimKB: pipeline.ToolVLimKB}, bsm, "filelist.txt")
	if res.Exit != 0 || res.TimedOut {
		r.mism = append(r.mism, Mismatch{gen, "samples/README.md", "build_sample_md failed: " + pipeline.Clip(res.Combined(), 1500)})
		return
	}
	a, err := os.ReadFile(filepath.Join(w, "samples", "README.md"))
	if err != nil {
		r.mism = append(r.mism, Mismatch{gen, "samples/README.md", "build_sample_md wrote no README.md"})
		return
	}
	b, _ := os.ReadFile(filepath.Join(ref, "samples", "README.md"))
	r.comparisons++
	r.e.Record("TestFixedPoint", vt.Hash("readme", fmt.Sprint(gen), string(b)), true, []string{fmt.Sprintf("generation %d", gen), "README.md"}, func() any {
		return map[string]any{"generation": gen, "file": "samples/README.md", "bytes": len(b)}
	})
	if string(a) != string(b) {
		r.mism = append(r.mism, Mismatch{gen, "samples/README.md", firstDiff(string(a), string(b))})
	}
}

func fixedPoint(e *vt.Env) (*run, error) {
	r := &run{e: e}
	if e.FC == "" || e.BSM == "" {
		return r, fmt.Errorf("needs VERIF_FC and VERIF_BSM")
	}
	listedCache = nil
	// generation 1: fc built from the checked-in gen_*.go
	w1, err := r.regenerate(1, e.FC, "gen1")
	if err != nil {
		return r, err
	}
	r.compareTree(1, w1, e.Repo, "g1")
	r.readme(1, w1, e.Repo, e.BSM)
	// generation 2: fc built from generation 1's output (+ wrapper.go)
	fc2 := filepath.Join(e.Scratch, "fc2")
	if br := pipeline.BuildTool(w1, "fc", fc2); br.Exit != 0 {
		r.mism = append(r.mism, Mismatch{2, "fc/gen_*.go", "the regenerated compiler does not build: " + pipeline.Clip(br.Combined(), 2000)})
		return r, nil
	}
	bsm2 := filepath.Join(e.Scratch, "bsm2")
	if br := pipeline.BuildTool(w1, "cmd/build_sample_md", bsm2); br.Exit != 0 {
		r.mism = append(r.mism, Mismatch{2, "cmd/build_sample_md/gen_build_sample_md.go", "the regenerated tool does not build: " + pipeline.Clip(br.Combined(), 2000)})
		return r, nil
	}
	w2, err := r.regenerate(2, fc2, "gen2")
	if err != nil {
		return r, err
	}
	r.compareTree(2, w2, w1, "g2")
	r.readme(2, w2, w1, bsm2)
	os.RemoveAll(w1)
	os.RemoveAll(w2)
	return r, nil
}

func TestFixedPoint(t *testing.T) {
	e := vt.Get()
	defer e.Flush()
	if e.FC == "" {
		t.Skip("needs the orchestrator (VERIF_FC)")
	}
	r, err := fixedPoint(e)
	if err != nil {
		t.Fatalf("harness: %v", err) // no saved case: inconclusive
	}
	e.Meta("TestFixedPoint", map[string]any{"exhaustive": true, "domain": "every .fo with a checked-in generated counterpart (fc_all.sh list, filelist.txt, build_sample_md.fo, README.md) x generations 1 and 2", "comparisons": r.comparisons})
	if len(r.mism) > 0 {
		sort.Slice(r.mism, func(i, j int) bool {
			if r.mism[i].Generation != r.mism[j].Generation {
				return r.mism[i].Generation < r.mism[j].Generation
			}
			return r.mism[i].File < r.mism[j].File
		})
		c := Case{Note: "re-run on the current tree to reproduce; the inputs are the repository's own files", Mismatches: r.mism}
		var sb strings.Builder
		for _, m := range r.mism {
			fmt.Fprintf(&sb, "generation %d %s: %s\n", m.Generation, m.File, m.What)
		}
		e.Check(t, "fixedpoint", c, func() error { return fmt.Errorf("%d regenerated file(s) differ:\n%s", len(r.mism), sb.String()) })
	}
}

func TestReplay(t *testing.T) {
	e := vt.Get()
	e.RunReplay(t, map[string]func(json.RawMessage) error{
		"fixedpoint": func(json.RawMessage) error {
			r, err := fixedPoint(e)
			if err != nil {
				return nil
			}
			if len(r.mism) > 0 {
				return fmt.Errorf("%d regenerated file(s) differ, first: generation %d %s: %s", len(r.mism), r.mism[0].Generation, r.mism[0].File, r.mism[0].What)
			}
			return nil
		},
	})
}
