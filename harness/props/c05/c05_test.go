// C05: transpilation is deterministic (independent of dictionary enumeration
// order, of the process, and of how many times it is run).
package c05

import (
	"encoding/json"
	"fmt"
	"os"
	"path/filepath"
	"regexp"
	"sort"
	"strings"
	"testing"
	"time"

	"pgregory.net/rapid"

	"verif/harness/lang"
	"verif/harness/pipeline"
	"verif/harness/vt"
)

// Case: one source file and the enumeration orders to run it under.
// Order "natural" = the unmodified fc in a fresh process (Go's random map
// order); every other order uses fc built against the dict-order shim.
type Case struct {
	Src    string   `json:"src"`
	Orders []string `json:"orders"`
}

type outcome struct {
	exit int
	gen  string // "" = no gen file
}

var seq int

func runOrder(e *vt.Env, src, order string) (outcome, string, error) {
	seq++
	dir := filepath.Join(e.Scratch, fmt.Sprintf("w%d", seq%4))
	os.RemoveAll(dir)
	os.MkdirAll(dir, 0o755)
	if err := os.WriteFile(filepath.Join(dir, "prog.fo"), []byte(src), 0o644); err != nil {
		return outcome{}, "", err
	}
	fc := e.FC
	var env []string
	if order != "natural" {
		if e.FCPerm == "" {
			return outcome{}, "", fmt.Errorf("order %q needs the dict-order shim", order)
		}
		fc = e.FCPerm
		env = []string{"VERIF_DICT_ORDER=" + order}
	}
	r := pipeline.RunFCEnv(fc, dir, 60*time.Second, env, filepath.Join(e.Repo, "pkg", "pkg_all.foi"), "prog.fo")
	if r.TimedOut || r.Signal != "" || r.Err != nil {
		return outcome{}, "", fmt.Errorf("fc did not finish normally under order %s: %s", order, r.String())
	}
	o := outcome{exit: r.Exit}
	if b, err := os.ReadFile(filepath.Join(dir, "gen_prog.go")); err == nil {
		o.gen = string(b)
	}
	return o, r.Combined(), nil
}

func firstDiff(a, b string) string {
	la, lb := strings.Split(a, "\n"), strings.Split(b, "\n")
	for i := 0; i < len(la) || i < len(lb); i++ {
		var x, y string
		if i < len(la) {
			x = la[i]
		}
		if i < len(lb) {
			y = lb[i]
		}
		if x != y {
			return fmt.Sprintf("emitted line %d: %q  vs  %q", i+1, x, y)
		}
	}
	return "identical"
}

func check(c Case) error {
	e := vt.Get()
	if e.FC == "" {
		return fmt.Errorf("needs VERIF_FC")
	}
	var first outcome
	var firstOut string
	for i, ord := range c.Orders {
		if ord != "natural" && e.FCPerm == "" {
			continue
		}
		o, out, err := runOrder(e, c.Src, ord)
		if err != nil {
			return err
		}
		if i == 0 {
			first, firstOut = o, out
			continue
		}
		if (o.exit == 0) != (first.exit == 0) {
			return fmt.Errorf("accept/reject decision depends on the enumeration order: %s gives exit %d, %s gives exit %d\n--- output under %s\n%s\n--- output under %s\n%s\n--- source\n%s",
				c.Orders[0], first.exit, ord, o.exit, c.Orders[0], pipeline.Clip(firstOut, 400), ord, pipeline.Clip(out, 400), c.Src)
		}
		if o.gen != first.gen {
			return fmt.Errorf("the emitted file differs between order %s and order %s (%s)\n--- source\n%s", c.Orders[0], ord, firstDiff(first.gen, o.gen), c.Src)
		}
	}
	return nil
}

// --- program construction ---------------------------------------------------------------

var reArm = regexp.MustCompile(`(?m)^\s*\| K[0-9]+[a-z].*->.*\n`)
var reImport = regexp.MustCompile(`(?m)^import [a-z]+\n`)
var reAnnot = regexp.MustCompile(`\((p[0-9]+):[^()]*\)`)

const pkgInfos = `
package_info extone =
  type Handle
  type Token
  type Box<T>
  let Open: string->Handle
  let Size: Handle->int
  let Name: Handle->string
  let Join<T>: []T->string->string
  let MkToken: string->Token
  let TokLen: Token->int
  let Unbox<T>: Box<T>->T

package_info exttwo =
  let Alpha: int->int
  let Beta: int->string->string
  let Gamma<T, U>: T->U->T*U
  let Delta: ()->int

package_info _ =
  let localOne: int->int
  let localTwo: string->int->string
  let localThree<T>: T->[]T
`

const pkgUsers = `
let useExt (n:int) (s:string) =
  let h = extone.Open s
  let a = extone.Size h + exttwo.Alpha n + localOne n
  let b = exttwo.Beta a (extone.Name h)
  let (c, d) = exttwo.Gamma a b
  let e = localThree d |> slice.Map (localTwo s)
  extone.Join e (localTwo b c)

let useTypes (t:extone.Token) (h:extone.Handle) (b:extone.Box<int>) =
  extone.TokLen t + extone.Size h + extone.Unbox b

let mkTok (s:string) : extone.Token =
  extone.MkToken s

type CfgQ = {PairQ: int*string; TitleQ: string}

let titleQ (c:CfgQ) =
  c.TitleQ

let pickQ (first:bool) x y =
  if first then x else y

let showAnyQ (x:any) =
  frt.Sprintf1 "%v" x

let classesQ r a b c =
  let p = pickQ true a b
  let q = pickQ false a r.PairQ
  let n = frt.Fst c
  let s = frt.Snd c
  let both = [p; c]
  let t = titleQ r
  frt.Sprintf1 "%s:" t + frt.Sprintf1 " %d" (n + 1) + frt.Sprintf1 " %s" (s + "!") + frt.Sprintf1 " %d" (slice.Length both) + frt.Sprintf1 " %v" q

let classesAnyQ a b c =
  let p = pickQ true a b
  let s = showAnyQ a
  let n = c + 1
  let both = [p; c]
  frt.Sprintf1 "%s" s + frt.Sprintf1 " %d" n + frt.Sprintf1 " %d" (slice.Length both)

let inferMany a b c d e f =
  let p = (a, b)
  let q = [c; d]
  let r = slice.Map (fun x -> (x, e)) q
  let g = f a
  (p, r, g)
`

func genCase(rt *rapid.T) (Case, []string) {
	p := lang.Full
	p.MaxUnits = 3
	p.SharedFields = true
	p.ManyDecls = true
	g := lang.NewGen(rt, p)
	pr := g.GenProgram()
	src := lang.Print(pr, lang.Canonical{})
	var labels []string
	// package_info blocks with several entries each, and functions using them / with many inference variables
	if rapid.IntRange(0, 3).Draw(rt, "pkgInfo") != 0 {
		i := strings.Index(src, "\nlet trace ")
		src = src[:i] + pkgInfos + pkgUsers + src[i:]
		if !strings.Contains(src, "import slice") {
			src = strings.Replace(src, "import frt\n", "import frt\nimport slice\n", 1)
		}
		labels = append(labels, "package_info blocks with >= 3 entries")
	}
	// erase some parameter annotations: more inference variables (the program may then be rejected - consistently)
	if rapid.IntRange(0, 2).Draw(rt, "erase") == 0 {
		ms := reAnnot.FindAllStringSubmatchIndex(src, -1)
		if len(ms) > 0 {
			k := rapid.IntRange(1, min(4, len(ms))).Draw(rt, "nerase")
			for j := 0; j < k; j++ {
				ms = reAnnot.FindAllStringSubmatchIndex(src, -1)
				if len(ms) == 0 {
					break
				}
				m := ms[rapid.IntRange(0, len(ms)-1).Draw(rt, "whichAnnot")]
				src = src[:m[0]] + src[m[2]:m[3]] + src[m[1]:]
			}
			labels = append(labels, "parameter annotations erased")
		}
	}
	// programs that must be rejected: a union arm removed (non-exhaustive) or an unknown identifier
	switch rapid.IntRange(0, 5).Draw(rt, "breakIt") {
	case 0:
		ms := reArm.FindAllStringIndex(src, -1)
		if len(ms) > 0 {
			m := ms[rapid.IntRange(0, len(ms)-1).Draw(rt, "whichArm")]
			src = src[:m[0]] + src[m[1]:]
			labels = append(labels, "a match arm removed")
		}
	case 1:
		src = strings.Replace(src, "let main () =\n", "let main () =\n  frt.Println unknownName\n", 1)
		labels = append(labels, "unknown identifier")
	}
	// the same text in less tidy shapes (whatever fc makes of them, it makes the same every time): an import
	// written twice, imports the program does not use, a declaration repeated under another name
	switch rapid.IntRange(0, 7).Draw(rt, "untidy") {
	case 0:
		if ms := reImport.FindAllString(src, -1); len(ms) > 0 {
			dup := ms[rapid.IntRange(0, len(ms)-1).Draw(rt, "dupImport")]
			last := strings.LastIndex(src, ms[len(ms)-1]) + len(ms[len(ms)-1])
			src = src[:last] + dup + src[last:]
			labels = append(labels, "an import written twice")
		}
	case 1:
		if ms := reImport.FindAllString(src, -1); len(ms) > 0 {
			last := strings.LastIndex(src, ms[len(ms)-1]) + len(ms[len(ms)-1])
			extra := ""
			for _, pk := range []string{"dict", "buf", "strings", "slice", "frt", "sys"} {
				if rapid.Bool().Draw(rt, "extraImport:"+pk) {
					extra += "import " + pk + "\n"
				}
			}
			src = src[:last] + extra + src[last:]
			labels = append(labels, "extra imports (possibly repeated)")
		}
	}
	if g.Labels["type: two records with the same field names"] {
		labels = append(labels, "two records with the same field names")
	}
	orders := []string{"natural", "natural", "natural", "sorted", "reverse"}
	orders = append(orders, fmt.Sprintf("rotate:%d", rapid.IntRange(1, 5).Draw(rt, "rot")))
	for i := 0; i < 3; i++ {
		orders = append(orders, fmt.Sprintf("shuffle:%d", rapid.Uint64Range(1, 1<<40).Draw(rt, "shuffleSeed")))
	}
	for i := 0; i < 2; i++ {
		orders = append(orders, fmt.Sprintf("indep:%d", rapid.Uint64Range(1, 1<<40).Draw(rt, "indepSeed")))
	}
	return Case{Src: src, Orders: orders}, labels
}

func TestDeterminism(t *testing.T) {
	e := vt.Get()
	defer e.Flush()
	if e.FC == "" {
		t.Skip("needs the orchestrator (VERIF_FC)")
	}
	if e.FCPerm == "" {
		e.Meta("TestDeterminism", map[string]any{"note": "dict-order shim unavailable: only repeated runs under Go's random map order were compared"})
	}
	rapid.Check(t, func(rt *rapid.T) {
		c, labels := genCase(rt)
		sort.Strings(labels)
		nUsed := 0
		for _, o := range c.Orders {
			if o == "natural" || e.FCPerm != "" {
				nUsed++
			}
		}
		// non-trivial: at least two of the dictionaries fc enumerates hold >= 2 entries and >= 3 distinct orders were run
		multi := 0
		if strings.Count(c.Src, "\ntype Rec") >= 2 {
			multi++
		}
		if strings.Contains(c.Src, "package_info extone") {
			multi++
		}
		if strings.Contains(c.Src, "fun ") {
			multi++
		}
		nt := multi >= 2 && nUsed >= 3
		e.RecordN("TestDeterminism", vt.Hash(c.Src), nt, labels, nUsed, func() any { return c })
		e.Check(rt, "determinism", c, func() error { return check(c) })
	})
}

func TestReplay(t *testing.T) {
	e := vt.Get()
	e.RunReplay(t, map[string]func(json.RawMessage) error{
		"determinism": vt.Handler(check),
	})
}
