// C06: only relative indentation and line structure matter (offside rule).
package c06

import (
	"encoding/json"
	"fmt"
	"os"
	"path/filepath"
	"sort"
	"strings"
	"testing"
	"time"

	"pgregory.net/rapid"

	"verif/harness/lang"
	"verif/harness/pipeline"
	"verif/harness/vt"
)

// Case: two source texts that must (Same) or must not (!Same) transpile to the
// same Go.
type Case struct {
	A    string `json:"a"`
	B    string `json:"b"`
	Same bool   `json:"same"`
	Note string `json:"note,omitempty"`
}

var seq int

func transpile(e *vt.Env, fc, src string) (string, string, error) {
	seq++
	dir := filepath.Join(e.Scratch, fmt.Sprintf("w%d", seq%4))
	os.MkdirAll(dir, 0o755)
	os.Remove(filepath.Join(dir, "gen_prog.go"))
	if err := os.WriteFile(filepath.Join(dir, "prog.fo"), []byte(src), 0o644); err != nil {
		return "", "", err
	}
	r := pipeline.RunFC(fc, dir, 60*time.Second, filepath.Join(e.Repo, "pkg", "pkg_all.foi"), "prog.fo")
	if r.TimedOut || r.Signal != "" || r.Err != nil {
		return "", "", fmt.Errorf("fc did not finish normally: %s", r.String())
	}
	if r.Exit != 0 {
		return "", r.Combined(), nil
	}
	b, err := os.ReadFile(filepath.Join(dir, "gen_prog.go"))
	if err != nil {
		return "", "exit 0 but no gen_prog.go", nil
	}
	return string(b), "", nil
}

func firstDiff(a, b string) string {
	la, lb := strings.Split(a, "\n"), strings.Split(b, "\n")
	for i := 0; i < len(la) || i < len(lb); i++ {
		var x, y string
		if i < len(la) {
			x = la[i]
		}
		if i < len(lb) {
			y = lb[i]
		}
		if x != y {
			return fmt.Sprintf("emitted line %d: %q  vs  %q", i+1, x, y)
		}
	}
	return "identical"
}

func checkWith(e *vt.Env, fc string, c Case) error {
	ga, ra, err := transpile(e, fc, c.A)
	if err != nil {
		return err
	}
	if ra != "" {
		return fmt.Errorf("the reference layout of the program is rejected by fc: %s\n%s", pipeline.Clip(ra, 400), c.A)
	}
	gb, rb, err := transpile(e, fc, c.B)
	if err != nil {
		return err
	}
	if c.Same {
		if rb != "" {
			return fmt.Errorf("a re-layout that keeps the block structure is rejected:\n%s\n--- re-laid-out source\n%s\n--- reference layout\n%s", pipeline.Clip(rb, 400), c.B, c.A)
		}
		if ga != gb {
			return fmt.Errorf("a re-layout that keeps the block structure changes the emitted Go (%s)\n--- re-laid-out source\n%s\n--- reference layout\n%s", firstDiff(gb, ga), c.B, c.A)
		}
		return nil
	}
	if rb != "" {
		return fmt.Errorf("%s: rejected: %s\n%s", c.Note, pipeline.Clip(rb, 400), c.B)
	}
	if ga == gb {
		return fmt.Errorf("%s: the emitted Go did not change\n--- A\n%s\n--- B\n%s", c.Note, c.A, c.B)
	}
	return nil
}

func check(c Case) error {
	e := vt.Get()
	if err := checkWith(e, e.FC, c); err != nil {
		return err
	}
	if e.FCB != "" {
		if err := checkWith(e, e.FCB, c); err != nil {
			return fmt.Errorf("(compiler regenerated from fc/*.fo) %v", err)
		}
	}
	return nil
}

func nesting(src string) int {
	// number of distinct indentation levels on the deepest path, approximated
	// by the maximum indentation of the canonical text divided by its step (2)
	m := 0
	for _, l := range strings.Split(src, "\n") {
		t := strings.TrimLeft(l, " ")
		if t == "" {
			continue
		}
		if d := (len(l) - len(t)) / 2; d > m {
			m = d
		}
	}
	return m
}

func TestLayouts(t *testing.T) {
	e := vt.Get()
	defer e.Flush()
	if e.FC == "" {
		t.Skip("needs the orchestrator (VERIF_FC)")
	}
	rapid.Check(t, func(rt *rapid.T) {
		p := lang.Full
		p.MaxUnits = 3
		g := lang.NewGen(rt, p)
		pr := g.GenProgram()
		canon := lang.Print(pr, lang.Canonical{})
		nlay := 3
		for i := 0; i < nlay; i++ {
			rl := lang.NewRandomLayout(rt)
			variant := lang.Print(pr, rl)
			c := Case{A: canon, B: variant, Same: true}
			var labels []string
			for k := range rl.Kinds {
				labels = append(labels, "layout: "+k)
			}
			sort.Strings(labels)
			nt := len(rl.Kinds) >= 3 && nesting(canon) >= 3
			e.Record("TestLayouts", vt.Hash(variant), nt, labels, func() any {
				return map[string]any{"relaid_source": variant, "kinds": rl.Kinds}
			})
			e.Check(rt, "layout", c, func() error { return check(c) })
		}
	})
}

// TestDedent: the converse direction. A statement directly after a nested
// block belongs to the enclosing block when it is written at the outer
// column and to the nested block when it is written at the inner column.
func TestDedent(t *testing.T) {
	e := vt.Get()
	defer e.Flush()
	if e.FC == "" {
		t.Skip("needs the orchestrator (VERIF_FC)")
	}
	rapid.Check(t, func(rt *rapid.T) {
		p := lang.Full
		g := lang.NewGen(rt, p)
		shape := rapid.SampledFrom([]string{"if-only", "match-arm", "local-function", "if-else"}).Draw(rt, "shape")
		inner := 2 + rapid.IntRange(0, 4).Draw(rt, "innerIndent")
		outer := 2
		cond := rapid.SampledFrom([]string{"a > 1", "a = 2", "not (a > 0)"}).Draw(rt, "cond")
		mark := "frt.Println \"MARK\""
		pad := func(n int) string { return strings.Repeat(" ", n) }
		var head, tail []string
		body := []string{pad(outer+inner) + "frt.Println \"in\""}
		switch shape {
		case "if-only":
			head = []string{pad(outer) + "if " + cond + " then"}
		case "if-else":
			head = []string{pad(outer) + "if " + cond + " then", pad(outer+inner) + "frt.Println \"then\"", pad(outer) + "else"}
		case "match-arm":
			head = []string{pad(outer) + "match u with", pad(outer) + "| KA -> frt.Println \"ka\"", pad(outer) + "| KB ->"}
		case "local-function":
			head = []string{pad(outer) + "let loc (x:int) ="}
			tail = []string{pad(outer) + "loc a"}
		}
		_ = g
		build := func(markCol int) string {
			var ls []string
			ls = append(ls, "package main", "", "import frt", "", "type KU =", "  | KA", "  | KB", "", "let f (a:int) (u:KU) =")
			ls = append(ls, pad(outer)+"frt.Println \"start\"")
			ls = append(ls, head...)
			ls = append(ls, body...)
			ls = append(ls, pad(markCol)+mark)
			ls = append(ls, tail...)
			ls = append(ls, pad(outer)+"frt.Println \"end\"", "")
			return strings.Join(ls, "\n") + "\n"
		}
		outside := build(outer)
		inside := build(outer + inner)
		// the same two programs written with a different inner indentation must give the same two outputs
		inner2 := 1 + rapid.IntRange(0, 6).Draw(rt, "innerIndent2")
		rebuild := func(in bool) string {
			s := outside
			if in {
				s = inside
			}
			var out []string
			for _, l := range strings.Split(s, "\n") {
				tl := strings.TrimLeft(l, " ")
				ind := len(l) - len(tl)
				if ind == outer+inner {
					l = pad(outer+inner2) + tl
				}
				out = append(out, l)
			}
			return strings.Join(out, "\n")
		}
		cases := []Case{
			{A: outside, B: inside, Same: false, Note: "a statement moved from the outer column to the block's column must become part of the block (" + shape + ")"},
			{A: outside, B: rebuild(false), Same: true},
			{A: inside, B: rebuild(true), Same: true},
		}
		for _, c := range cases {
			e.Record("TestDedent", vt.Hash(c.A, c.B), true, []string{"dedent: " + shape}, func() any { return c })
			e.Check(rt, "layout", c, func() error { return check(c) })
		}
	})
}

// TestKnown re-runs the reproducers of the recorded findings and prints a
// KNOWN-FINDING line for each that still fails in the recorded way.
func TestKnown(t *testing.T) {
	e := vt.Get()
	defer e.Flush()
	if e.FC == "" {
		t.Skip("needs the orchestrator (VERIF_FC)")
	}
	for _, k := range e.KnownFor("C06") {
		b, err := os.ReadFile(filepath.Join(e.VerifDir, k.Reproducer))
		if err != nil {
			t.Fatalf("known finding %s: reproducer missing: %v", k.ID, err)
		}
		var fc vt.FailCase
		if err := json.Unmarshal(b, &fc); err != nil {
			t.Fatalf("known finding %s: %v", k.ID, err)
		}
		var c Case
		json.Unmarshal(fc.Case, &c)
		if err := check(c); err != nil {
			vt.PrintKnown(k)
		} else {
			t.Logf("known finding %s no longer reproduces", k.ID)
		}
		e.Record("TestKnown", vt.Hash(c.A, c.B), true, []string{"known finding " + k.ID}, nil)
	}
}

func TestReplay(t *testing.T) {
	e := vt.Get()
	e.RunReplay(t, map[string]func(json.RawMessage) error{
		"layout": vt.Handler(check),
	})
}
