// C07: a definition's translation depends only on itself and what it
// references (independence from the history of the long-lived parse state).
package c07

import (
	"bytes"
	"encoding/json"
	"fmt"
	"go/ast"
	"go/parser"
	"go/printer"
	"go/token"
	"os"
	"path/filepath"
	"regexp"
	"sort"
	"strings"
	"testing"
	"time"

	"pgregory.net/rapid"

	"verif/harness/lang"
	"verif/harness/pipeline"
	"verif/harness/vt"
)

// File of one fc invocation (path relative to the run directory).
type File struct {
	Path    string `json:"path"`
	Content string `json:"content"`
}

// Run is one fc invocation: files in argument order.
type Run struct {
	Files []File `json:"files"`
}

// Case: the base run and a transformed run; Compare lists the Go declaration
// keys that belong to items present in both.
type Case struct {
	Base      Run      `json:"base"`
	Variant   Run      `json:"variant"`
	Transform []string `json:"transform"`
}

var seq int

type runOut struct {
	decls   map[string]string // declaration key -> normalised text
	written []string          // files created by fc (relative paths)
}

var reTmp = regexp.MustCompile(`^_v[0-9]+$`)

// normalise renames compiler temporaries (_vN) per declared object in order of
// first occurrence, using the parser's scope resolution, and prints the
// declaration.
func normalise(fset *token.FileSet, d ast.Decl) string {
	names := map[*ast.Object]string{}
	byName := map[string]string{}
	n := 0
	ast.Inspect(d, func(nd ast.Node) bool {
		id, ok := nd.(*ast.Ident)
		if !ok || !reTmp.MatchString(id.Name) {
			return true
		}
		if id.Obj != nil {
			if _, ok := names[id.Obj]; !ok {
				n++
				names[id.Obj] = fmt.Sprintf("_tmp%d", n)
			}
			id.Name = names[id.Obj]
			return true
		}
		if _, ok := byName[id.Name]; !ok {
			n++
			byName[id.Name] = fmt.Sprintf("_tmp%d", n)
		}
		id.Name = byName[id.Name]
		return true
	})
	var buf bytes.Buffer
	printer.Fprint(&buf, fset, d)
	return buf.String()
}

func declKey(d ast.Decl) []string {
	switch x := d.(type) {
	case *ast.FuncDecl:
		if x.Recv != nil && len(x.Recv.List) == 1 {
			var sb bytes.Buffer
			printer.Fprint(&sb, token.NewFileSet(), x.Recv.List[0].Type)
			return []string{"method " + sb.String() + "." + x.Name.Name}
		}
		return []string{"func " + x.Name.Name}
	case *ast.GenDecl:
		var ks []string
		for _, sp := range x.Specs {
			switch s := sp.(type) {
			case *ast.TypeSpec:
				ks = append(ks, "type "+s.Name.Name)
			case *ast.ValueSpec:
				for _, n := range s.Names {
					ks = append(ks, "var "+n.Name)
				}
			}
		}
		return ks
	}
	return nil
}

func execRun(e *vt.Env, fc string, r Run) (runOut, string, error) {
	seq++
	dir := filepath.Join(e.Scratch, fmt.Sprintf("w%d", seq%4))
	os.RemoveAll(dir)
	out := runOut{decls: map[string]string{}}
	args := []string{filepath.Join(e.Repo, "pkg", "pkg_all.foi")}
	for _, f := range r.Files {
		p := filepath.Join(dir, f.Path)
		os.MkdirAll(filepath.Dir(p), 0o755)
		if err := os.WriteFile(p, []byte(f.Content), 0o644); err != nil {
			return out, "", err
		}
		args = append(args, f.Path)
	}
	res := pipeline.RunFC(fc, dir, 60*time.Second, args...)
	if res.TimedOut || res.Signal != "" || res.Err != nil {
		return out, "", fmt.Errorf("fc did not finish normally: %s", res.String())
	}
	if res.Exit != 0 {
		return out, res.Combined(), nil
	}
	given := map[string]bool{}
	for _, f := range r.Files {
		given[f.Path] = true
	}
	filepath.Walk(dir, func(p string, info os.FileInfo, err error) error {
		if err == nil && !info.IsDir() {
			rel, _ := filepath.Rel(dir, p)
			if !given[rel] {
				out.written = append(out.written, rel)
			}
		}
		return nil
	})
	sort.Strings(out.written)
	for _, w := range out.written {
		b, _ := os.ReadFile(filepath.Join(dir, w))
		fset := token.NewFileSet()
		f, err := parser.ParseFile(fset, w, b, 0)
		if err != nil {
			return out, "", fmt.Errorf("emitted %s does not parse: %v", w, err)
		}
		for _, d := range f.Decls {
			if gd, ok := d.(*ast.GenDecl); ok && gd.Tok == token.IMPORT {
				continue
			}
			ks := declKey(d)
			txt := normalise(fset, d)
			for _, k := range ks {
				out.decls[k] = txt
			}
		}
	}
	return out, "", nil
}

func expectedWritten(r Run) []string {
	var out []string
	for _, f := range r.Files {
		if strings.HasSuffix(f.Path, ".fo") {
			out = append(out, filepath.Join(filepath.Dir(f.Path), "gen_"+strings.TrimSuffix(filepath.Base(f.Path), ".fo")+".go"))
		}
	}
	sort.Strings(out)
	return out
}

func describe(r Run) string {
	var sb strings.Builder
	for _, f := range r.Files {
		fmt.Fprintf(&sb, "----- %s\n%s", f.Path, f.Content)
	}
	return sb.String()
}

func checkWith(e *vt.Env, fc string, c Case) error {
	a, ra, err := execRun(e, fc, c.Base)
	if err != nil {
		return err
	}
	if ra != "" {
		return fmt.Errorf("the base program is rejected by fc: %s\n%s", pipeline.Clip(ra, 400), describe(c.Base))
	}
	b, rb, err := execRun(e, fc, c.Variant)
	if err != nil {
		return err
	}
	if rb != "" {
		return fmt.Errorf("after %v the program is rejected: %s\n%s", c.Transform, pipeline.Clip(rb, 400), describe(c.Variant))
	}
	for _, pair := range []struct {
		r Run
		o runOut
	}{{c.Base, a}, {c.Variant, b}} {
		if want := expectedWritten(pair.r); strings.Join(want, ",") != strings.Join(pair.o.written, ",") {
			return fmt.Errorf("files written %v, expected exactly %v (gen_X.go next to each X.fo, nothing for .foi)\n%s", pair.o.written, want, describe(pair.r))
		}
	}
	var keys []string
	for k := range a.decls {
		if _, ok := b.decls[k]; ok {
			keys = append(keys, k)
		}
	}
	sort.Strings(keys)
	for _, k := range keys {
		if a.decls[k] != b.decls[k] {
			return fmt.Errorf("the Go emitted for %q changes after %v\n--- before\n%s\n--- after\n%s\n=== base\n%s\n=== variant\n%s", k, c.Transform, a.decls[k], b.decls[k], describe(c.Base), describe(c.Variant))
		}
	}
	return nil
}

func check(c Case) error {
	e := vt.Get()
	if err := checkWith(e, e.FC, c); err != nil {
		return err
	}
	if e.FCB != "" {
		if err := checkWith(e, e.FCB, c); err != nil {
			return fmt.Errorf("(compiler regenerated from fc/*.fo) %v", err)
		}
	}
	return nil
}

// --- building runs from items ------------------------------------------------------------

type item struct {
	it    *lang.TopItem
	text  string
	names []string     // names this item defines
	refs  map[int]bool // earlier items this one needs (deleting them is not allowed while it is kept)
	order map[int]bool // items that must stay before this one
}

var reIdent = regexp.MustCompile(`[A-Za-z_][A-Za-z0-9_]*`)

func defined(it *lang.TopItem) []string {
	var out []string
	if it.Func != nil {
		out = append(out, it.Func.Name)
	}
	if it.Var != nil {
		out = append(out, it.Var.Name)
	}
	for _, d := range it.Types {
		if d.Rec != nil {
			out = append(out, d.Rec.Name)
			for _, f := range d.Rec.Fields {
				out = append(out, f.Name)
			}
		}
		if d.Union != nil {
			out = append(out, d.Union.Name)
			for _, c := range d.Union.Cases {
				out = append(out, c.Name)
			}
		}
	}
	return out
}

func analyse(items []*lang.TopItem) []*item {
	var out []*item
	owners := map[string][]int{} // a field name may be defined by several records
	for i, it := range items {
		x := &item{it: it, text: lang.ItemText(it, lang.Canonical{}), names: defined(it), refs: map[int]bool{}, order: map[int]bool{}}
		for _, n := range x.names {
			owners[n] = append(owners[n], i)
		}
		out = append(out, x)
	}
	for i, x := range out {
		for _, id := range reIdent.FindAllString(x.text, -1) {
			for _, j := range owners[id] {
				switch {
				case j < i:
					x.refs[j] = true // i needs the earlier item j
					x.order[j] = true
				case j > i:
					// j defines a name i mentions but comes later (a second record with the same field
					// names): i does not see it, and it must stay after i
					out[j].order[i] = true
				}
			}
		}
	}
	return out
}

func fileText(items []*item, idx []int) string {
	var its []*lang.TopItem
	for _, i := range idx {
		its = append(its, items[i].it)
	}
	return lang.Print(&lang.Program{Items: its}, lang.Canonical{})
}

// transformed applies a random history transformation to the program made of items: unreferenced items
// are deleted, independent items reordered, unrelated items (extra) inserted, the sequence cut into
// files. It returns the variant run, the description of what was done and the set of kept items.
func transformed(rt *rapid.T, items []*item, extra []*item, moved int) (Run, []string, map[int]bool) {
	n := len(items)
	var transform []string
	order := seqInts(n)
	kept := map[int]bool{}
	for i := range order {
		kept[i] = true
	}
	// (1) delete unreferenced items
	if rapid.Bool().Draw(rt, "delete") {
		for i := n - 1; i >= 0; i-- {
			referenced := false
			for j := range kept {
				if kept[j] && items[j].refs[i] {
					referenced = true
				}
			}
			if !referenced && rapid.IntRange(0, 2).Draw(rt, "drop") == 0 {
				delete(kept, i)
			}
		}
		if len(kept) < n {
			transform = append(transform, fmt.Sprintf("delete %d unreferenced item(s)", n-len(kept)))
		}
	}
	// (2) a different topological order
	var seqOrder []int
	if rapid.Bool().Draw(rt, "reorder") {
		placed := map[int]bool{}
		for len(seqOrder) < len(kept) {
			var ready []int
			for i := 0; i < n; i++ {
				if !kept[i] || placed[i] {
					continue
				}
				ok := true
				for j := range items[i].order {
					if kept[j] && !placed[j] {
						ok = false
					}
				}
				if ok {
					ready = append(ready, i)
				}
			}
			k := ready[rapid.IntRange(0, len(ready)-1).Draw(rt, "next")]
			placed[k] = true
			seqOrder = append(seqOrder, k)
		}
		if !sort.IntsAreSorted(seqOrder) {
			transform = append(transform, "reorder independent items")
		}
	} else {
		for i := 0; i < n; i++ {
			if kept[i] {
				seqOrder = append(seqOrder, i)
			}
		}
	}
	// (3) insert unrelated items: merge the extra sequence (kept in its own order) at random places
	type ref struct {
		extra bool
		i     int
		bulk  *lang.TopItem
	}
	var merged []ref
	for _, i := range seqOrder {
		merged = append(merged, ref{extra: false, i: i})
	}
	if rapid.Bool().Draw(rt, "insert") {
		pos := 0
		for xi := range extra {
			pos = rapid.IntRange(pos, len(merged)).Draw(rt, "insertAt")
			merged = append(merged[:pos], append([]ref{{extra: true, i: xi}}, merged[pos:]...)...)
			pos++
		}
		transform = append(transform, fmt.Sprintf("insert %d unrelated item(s)", len(extra)))
	}
	// (3b) many unrelated declarations in front: 60 or 130 and-groups, each with one forward reference.
	// Whatever fc counts or caches per declaration is far larger after them than in the base run.
	if rapid.IntRange(0, 5).Draw(rt, "bulk") == 0 {
		k := rapid.SampledFrom([]int{60, 130}).Draw(rt, "bulkGroups")
		var front []ref
		for i := 0; i < k; i++ {
			a, b := fmt.Sprintf("Bk%d", i), fmt.Sprintf("Fw%d", i)
			front = append(front, ref{bulk: &lang.TopItem{Types: []*lang.TypeDecl{
				{Rec: &lang.RecDecl{Name: a, Fields: []lang.Field{{Name: fmt.Sprintf("Nx%d", i), T: lang.TRec(b)}}}},
				{Rec: &lang.RecDecl{Name: b, Fields: []lang.Field{{Name: fmt.Sprintf("Vx%d", i), T: lang.TInt}}}, And: true},
			}}})
		}
		merged = append(front, merged...)
		transform = append(transform, fmt.Sprintf("insert %d unrelated and-groups with forward references in front", k))
	}
	// (4) cut into files in different directories
	nfiles := 1
	if rapid.Bool().Draw(rt, "split") && len(merged) >= 2 {
		nfiles = rapid.IntRange(2, min(4, len(merged))).Draw(rt, "nfiles")
	}
	cuts := []int{0}
	for f := 1; f < nfiles; f++ {
		lo := cuts[len(cuts)-1] + 1
		hi := len(merged) - (nfiles - f)
		if lo > hi {
			break
		}
		cuts = append(cuts, rapid.IntRange(lo, hi).Draw(rt, "cut"))
	}
	cuts = append(cuts, len(merged))
	variant := Run{}
	dirs := []string{"", "a", "b/c", "d"}
	for f := 0; f+1 < len(cuts); f++ {
		var its []*lang.TopItem
		onlyDecls := true
		for _, r := range merged[cuts[f]:cuts[f+1]] {
			var it *lang.TopItem
			if r.bulk != nil {
				it = r.bulk
			} else if r.extra {
				it = extra[r.i].it
			} else {
				it = items[r.i].it
			}
			if it.Types == nil {
				onlyDecls = false
			}
			its = append(its, it)
		}
		name := fmt.Sprintf("part%d.fo", f)
		if len(cuts) == 2 {
			name = "prog.fo"
		}
		if onlyDecls && len(cuts) > 2 && rapid.Bool().Draw(rt, "asFoi") {
			name = fmt.Sprintf("decls%d.foi", f)
			transform = append(transform, "declarations moved into a .foi file")
		}
		variant.Files = append(variant.Files, File{Path: filepath.Join(dirs[f%len(dirs)], name), Content: lang.Print(&lang.Program{Items: its}, lang.Canonical{})})
	}
	if len(cuts) > 2 {
		transform = append(transform, fmt.Sprintf("split into %d files in different directories", len(cuts)-1))
	}
	if len(transform) == 0 {
		transform = []string{"identity"}
	}
	if moved > 0 {
		transform = append(transform, "base program declares a record with the same field names as an earlier one after functions that use such literals")
	}
	return variant, transform, kept
}

func TestHistories(t *testing.T) {
	e := vt.Get()
	defer e.Flush()
	if e.FC == "" {
		t.Skip("needs the orchestrator (VERIF_FC)")
	}
	rapid.Check(t, func(rt *rapid.T) {
		p := lang.Full
		p.MaxUnits = 4
		p.SharedFields = rapid.Bool().Draw(rt, "sharedFields")
		g := lang.NewGen(rt, p)
		pr := g.GenProgram()
		moved := moveTwinsLater(rt, pr)
		items := analyse(pr.Items)
		n := len(items)
		base := Run{Files: []File{{Path: "prog.fo", Content: fileText(items, seqInts(n))}}}

		// unrelated extra items from an independent generator with disjoint names
		px := p
		px.Probes, px.Generics, px.ReturnedFns = false, false, false
		g2 := lang.NewGen(rt, px)
		g2.SetNameOffset(5000)
		p2 := g2.GenProgramNoMain()
		extra := analyse(p2.Items)

		variant, transform, kept := transformed(rt, items, extra, moved)
		c := Case{Base: base, Variant: variant, Transform: transform}
		// non-trivial: some kept function with a match or a generic instantiation has a changed prefix
		nt := false
		if transform[0] != "identity" {
			for i := range kept {
				tx := items[i].text
				if items[i].it.Func != nil && (strings.Contains(tx, "match ") || strings.Contains(tx, "idd ") || strings.Contains(tx, "konst ") || strings.Contains(tx, "pair ") || strings.Contains(tx, "_.")) {
					nt = true
				}
			}
		}
		var labels []string
		for _, tr := range transform {
			labels = append(labels, "transform: "+strings.TrimLeft(regexp.MustCompile(`[0-9]+ `).ReplaceAllString(tr, ""), " "))
		}
		e.Record("TestHistories", vt.HashJSON(c), nt, labels, func() any {
			return map[string]any{"transform": transform, "variant_files": variant.Files}
		})
		e.Check(rt, "history", c, func() error { return check(c) })
	})
}

// moveTwinsLater moves the first of two records that have the same field names to a random later
// position (before main), so that functions with unqualified literals of that field set sit between
// the two declarations.
func moveTwinsLater(rt *rapid.T, pr *lang.Program) int {
	moved := 0
	sig := func(it *lang.TopItem) string {
		if len(it.Types) != 1 || it.Types[0].Rec == nil {
			return ""
		}
		var fs []string
		for _, f := range it.Types[0].Rec.Fields {
			fs = append(fs, f.Name)
		}
		sort.Strings(fs)
		return strings.Join(fs, ",")
	}
	for i := 0; i < len(pr.Items); i++ {
		s1 := sig(pr.Items[i])
		if s1 == "" {
			continue
		}
		twin := -1
		for j := i + 1; j < len(pr.Items); j++ {
			if sig(pr.Items[j]) == s1 {
				twin = j
				break
			}
		}
		if twin < 0 || !rapid.Bool().Draw(rt, "moveTwin") {
			continue
		}
		// nothing may name the moved record itself (only its field names are shared)
		re := regexp.MustCompile("\\b" + pr.Items[twin].Types[0].Rec.Name + "\\b")
		used := false
		for k, it := range pr.Items {
			if k != twin && re.MatchString(lang.ItemText(it, lang.Canonical{})) {
				used = true
			}
		}
		last := len(pr.Items) - 2 // before main
		if used || last <= twin {
			continue
		}
		to := rapid.IntRange(twin+1, last).Draw(rt, "twinTo")
		it := pr.Items[twin]
		pr.Items = append(pr.Items[:twin], pr.Items[twin+1:]...)
		pr.Items = append(pr.Items[:to], append([]*lang.TopItem{it}, pr.Items[to:]...)...)
		moved++
	}
	return moved
}

func seqInts(n int) []int {
	out := make([]int, n)
	for i := range out {
		out[i] = i
	}
	return out
}

func TestReplay(t *testing.T) {
	e := vt.Get()
	e.RunReplay(t, map[string]func(json.RawMessage) error{
		"history": vt.Handler(check),
	})
}

// --- records that share their field names: the long-lived lookup state, on purpose ---------------------
// Every program here has two or three records per field-name set, declared at random places among
// functions that build such records with unqualified literals, read their fields, or name one of the
// records. Which record an unqualified literal denotes may depend on the records declared before it
// (the ones it can see) and on nothing else: not on other functions before it, not on files.

var sharedSets = [][]lang.Field{
	{{Name: "Xa", T: lang.TInt}, {Name: "Xb", T: lang.TString}},
	{{Name: "Ya", T: lang.TString}},
	{{Name: "Za", T: lang.TInt}, {Name: "Zb", T: lang.TInt}, {Name: "Zc", T: lang.TBool}},
}

var sharedNames = []string{"Aa", "Bq", "Kk", "Mm", "Pre", "Rec", "Zz", "Tw"}

func genSharedState(rt *rapid.T) ([]*lang.TopItem, []string) {
	labels := map[string]bool{}
	var items []*lang.TopItem
	nsets := rapid.IntRange(1, 2).Draw(rt, "nsets")
	first := rapid.IntRange(0, len(sharedSets)-1).Draw(rt, "firstSet")
	fn := 0
	type recInfo struct {
		name string
		set  int
	}
	lit := func(set int, rec string, qualified bool) *lang.Expr {
		fs := sharedSets[set]
		e := &lang.Expr{K: "reclit", Name: rec, T: lang.TRec(rec), Qualified: qualified}
		idx := rapid.Permutation(seqInts(len(fs))).Draw(rt, "fieldOrder")
		if !sort.IntsAreSorted(idx) {
			labels["literal with permuted fields"] = true
		}
		for _, i := range idx {
			var v *lang.Expr
			switch fs[i].T.K {
			case "int":
				v = lang.Int(int64(rapid.IntRange(0, 9).Draw(rt, "iv")))
			case "string":
				v = lang.Str(rapid.SampledFrom([]string{"s", "", "q r"}).Draw(rt, "sv"))
			default:
				v = lang.Bool(rapid.Bool().Draw(rt, "bv"))
			}
			e.Fields = append(e.Fields, lang.FieldInit{Name: fs[i].Name, E: v})
		}
		return e
	}
	// the sequence: per set, records and functions interleaved; the sets' sequences are merged afterwards
	var seqs [][]*lang.TopItem
	usedNames := map[string]bool{}
	for s := 0; s < nsets; s++ {
		set := (first + s) % len(sharedSets)
		nrec := rapid.IntRange(2, 3).Draw(rt, "nrec")
		var recs []recInfo
		var seq []*lang.TopItem
		for len(recs) < nrec {
			nm := rapid.SampledFrom(sharedNames).Draw(rt, "recName")
			if s > 0 {
				nm += "2"
			}
			if usedNames[nm] {
				continue
			}
			usedNames[nm] = true
			recs = append(recs, recInfo{nm, set})
		}
		declared := 0
		declare := func() {
			r := recs[declared]
			declared++
			seq = append(seq, &lang.TopItem{Types: []*lang.TypeDecl{{Rec: &lang.RecDecl{Name: r.name, Fields: sharedSets[set]}}}, Label: "rec " + r.name})
			if declared > 1 {
				prevMin := recs[0].name
				for _, p := range recs[:declared-1] {
					if p.name < prevMin {
						prevMin = p.name
					}
				}
				if r.name < prevMin {
					labels["a record that sorts before its twins is declared after them"] = true
				}
			}
		}
		declare()
		nfun := rapid.IntRange(2, 5).Draw(rt, "nfun")
		for k := 0; k < nfun || declared < nrec; {
			if declared < nrec && (k >= nfun || rapid.IntRange(0, 2).Draw(rt, "declNow") == 0) {
				declare()
				continue
			}
			k++
			fn++
			f := &lang.FuncDecl{Name: fmt.Sprintf("fn%d", fn)}
			fs := sharedSets[set]
			fld := fs[rapid.IntRange(0, len(fs)-1).Draw(rt, "fld")]
			switch rapid.IntRange(0, 4).Draw(rt, "shape") {
			case 0: // returns an unqualified literal
				f.Ret = lang.TRec("?")
				f.Body = lang.Blk(lit(set, "?", false))
				labels["function returning an unqualified literal"] = true
			case 1: // builds one, reads a field
				f.Ret = fld.T
				f.Body = lang.Blk(&lang.Expr{K: "field", Name: fld.Name, T: fld.T, Args: []*lang.Expr{lang.Var("r", lang.TRec("?"))}}, lang.Let("r", lit(set, "?", false)))
				labels["literal bound and a field read"] = true
			case 2: // parameter annotated with one of the records declared so far
				r := recs[rapid.IntRange(0, declared-1).Draw(rt, "annotRec")]
				f.Params = []lang.Param{{Name: "r", T: lang.TRec(r.name), Annot: true}}
				f.Ret = fld.T
				f.Body = lang.Blk(&lang.Expr{K: "field", Name: fld.Name, T: fld.T, Args: []*lang.Expr{lang.Var("r", lang.TRec(r.name))}})
				labels["field read through an annotated parameter"] = true
			case 3: // qualified literal of one of the records declared so far
				r := recs[rapid.IntRange(0, declared-1).Draw(rt, "qualRec")]
				f.Ret = lang.TRec(r.name)
				f.Body = lang.Blk(lit(set, r.name, true))
				labels["qualified literal"] = true
			default: // two literals in one function
				f.Ret = lang.TBool
				f.Body = lang.Blk(lang.Bin("=", lang.TBool, lang.Var("a", lang.TRec("?")), lang.Var("b", lang.TRec("?"))),
					lang.Let("a", lit(set, "?", false)), lang.Let("b", lit(set, "?", false)))
				labels["two literals compared"] = true
			}
			seq = append(seq, &lang.TopItem{Func: f, Label: f.Name})
		}
		seqs = append(seqs, seq)
	}
	// an `and` group whose first record mentions the second one before it is declared; the functions use the
	// two records with and without annotations (an un-annotated parameter flowing into the forward-typed
	// field, a literal of the inner record, an annotated reader)
	if rapid.Bool().Draw(rt, "andGroup") {
		labels["and-group with a forward reference"] = true
		outer, inner := "Cfg", "Lim"
		tOuter, tInner := lang.TRec(outer), lang.TRec(inner)
		fields := []lang.Field{{Name: "Lm", T: tInner}, {Name: "Nm", T: lang.TString}}
		if rapid.Bool().Draw(rt, "fwdFieldLast") {
			fields[0], fields[1] = fields[1], fields[0]
		}
		seq := []*lang.TopItem{{Types: []*lang.TypeDecl{
			{Rec: &lang.RecDecl{Name: outer, Fields: fields}},
			{Rec: &lang.RecDecl{Name: inner, Fields: []lang.Field{{Name: "Mx", T: lang.TInt}}}, And: true},
		}, Label: "group"}}
		innerLit := func() *lang.Expr {
			return &lang.Expr{K: "reclit", Name: inner, T: tInner, Fields: []lang.FieldInit{{Name: "Mx", E: lang.Int(int64(rapid.IntRange(0, 9).Draw(rt, "mx")))}}}
		}
		outerLit := func(lm *lang.Expr) *lang.Expr {
			e := &lang.Expr{K: "reclit", Name: outer, T: tOuter}
			for _, f := range fields {
				if f.Name == "Lm" {
					e.Fields = append(e.Fields, lang.FieldInit{Name: "Lm", E: lm})
				} else {
					e.Fields = append(e.Fields, lang.FieldInit{Name: "Nm", E: lang.Str("d")})
				}
			}
			return e
		}
		nfun := rapid.IntRange(2, 5).Draw(rt, "ngroupfun")
		for k := 0; k < nfun; k++ {
			fn++
			f := &lang.FuncDecl{Name: fmt.Sprintf("fn%d", fn)}
			switch rapid.IntRange(0, 5).Draw(rt, "groupShape") {
			case 0, 1: // un-annotated parameter flows into the forward-typed field
				f.Params = []lang.Param{{Name: "l", T: tInner}}
				f.Ret = tOuter
				f.Body = lang.Blk(outerLit(lang.Var("l", tInner)))
				labels["un-annotated parameter into a forward-typed field"] = true
			case 2: // annotated reader of the outer record
				f.Params = []lang.Param{{Name: "c", T: tOuter, Annot: true}}
				f.Ret = lang.TString
				f.Body = lang.Blk(&lang.Expr{K: "field", Name: "Nm", T: lang.TString, Args: []*lang.Expr{lang.Var("c", tOuter)}})
			case 3: // nested read through the forward-typed field
				f.Params = []lang.Param{{Name: "c", T: tOuter, Annot: true}}
				f.Ret = lang.TInt
				f.Body = lang.Blk(&lang.Expr{K: "field", Name: "Mx", T: lang.TInt, Args: []*lang.Expr{
					{K: "field", Name: "Lm", T: tInner, Args: []*lang.Expr{lang.Var("c", tOuter)}}}})
			case 4: // complete literal
				f.Ret = tOuter
				f.Body = lang.Blk(outerLit(innerLit()))
			default: // un-annotated reader: the field name decides the record
				f.Params = []lang.Param{{Name: "c", T: tOuter}}
				f.Ret = lang.TString
				f.Body = lang.Blk(&lang.Expr{K: "field", Name: "Nm", T: lang.TString, Args: []*lang.Expr{lang.Var("c", tOuter)}})
				labels["field read through an un-annotated parameter"] = true
			}
			seq = append(seq, &lang.TopItem{Func: f, Label: f.Name})
		}
		seqs = append(seqs, seq)
	}
	// two unions that share a case name, once bare and once with a payload: a use of the name means the
	// case of the union declared last before it (the later registration shadows the earlier one)
	if rapid.Bool().Draw(rt, "sharedCase") {
		labels["two unions share a case name"] = true
		bare := &lang.UnionDecl{Name: "Colr", Cases: []lang.UCase{{Name: "Cst"}, {Name: "Redd"}}}
		pay := &lang.UnionDecl{Name: "Shpe", Cases: []lang.UCase{{Name: "Cst", Payload: lang.TString}, {Name: "Sqr", Payload: lang.TInt}}}
		first, second := bare, pay
		if rapid.Bool().Draw(rt, "payloadFirst") {
			first, second = pay, bare
		}
		use := func(u *lang.UnionDecl) *lang.TopItem {
			fn++
			f := &lang.FuncDecl{Name: fmt.Sprintf("fn%d", fn), Ret: lang.TUnion(u.Name)}
			if u.Cases[0].Payload != nil {
				f.Body = lang.Blk(lang.Call("Cst", lang.TUnion(u.Name), lang.Str("x")))
			} else {
				f.Body = lang.Blk(lang.Var("Cst", lang.TUnion(u.Name)))
			}
			if rapid.Bool().Draw(rt, "caseInList") {
				f.Ret = lang.TSlice(lang.TUnion(u.Name))
				f.Body = lang.Blk(&lang.Expr{K: "slice", T: f.Ret, Args: []*lang.Expr{f.Body.Final}})
			}
			return &lang.TopItem{Func: f, Label: f.Name}
		}
		seq := []*lang.TopItem{{Types: []*lang.TypeDecl{{Union: first}}, Label: "union " + first.Name}}
		for k := rapid.IntRange(0, 2).Draw(rt, "usesBetween"); k > 0; k-- {
			seq = append(seq, use(first))
		}
		seq = append(seq, &lang.TopItem{Types: []*lang.TypeDecl{{Union: second}}, Label: "union " + second.Name})
		for k := rapid.IntRange(1, 3).Draw(rt, "usesAfter"); k > 0; k-- {
			seq = append(seq, use(second))
		}
		seqs = append(seqs, seq)
	}
	// a user type named like a type parameter of an unrelated package_info signature: the signature's K and
	// V are its own, the record V declared before stays what later annotations mean
	if rapid.Bool().Draw(rt, "typeParamNamedLikeType") {
		labels["a record named like a package_info type parameter"] = true
		tn := rapid.SampledFrom([]string{"V", "K", "T"}).Draw(rt, "paramLikeName")
		tV := lang.TRec(tn)
		seq := []*lang.TopItem{{Types: []*lang.TypeDecl{{Rec: &lang.RecDecl{Name: tn, Fields: []lang.Field{{Name: "Vx", T: lang.TInt}, {Name: "Vy", T: lang.TInt}}}}}, Label: "rec " + tn}}
		pk := &lang.TopItem{Raw: "package_info _ =\n  let Memo<K, V>: K->V->V\n  let Keep<T>: T->T", Label: "pkginfo"}
		var rest []*lang.TopItem
		for k := rapid.IntRange(1, 3).Draw(rt, "usesOfV"); k > 0; k-- {
			fn++
			f := &lang.FuncDecl{Name: fmt.Sprintf("fn%d", fn)}
			if rapid.Bool().Draw(rt, "annotatedUse") {
				f.Params = []lang.Param{{Name: "v", T: tV, Annot: true}}
				f.Ret = lang.TInt
				f.Body = lang.Blk(lang.Bin("+", lang.TInt, &lang.Expr{K: "field", Name: "Vx", T: lang.TInt, Args: []*lang.Expr{lang.Var("v", tV)}},
					&lang.Expr{K: "field", Name: "Vy", T: lang.TInt, Args: []*lang.Expr{lang.Var("v", tV)}}))
			} else {
				f.Ret = tV
				f.Body = lang.Blk(&lang.Expr{K: "reclit", Name: tn, T: tV, Fields: []lang.FieldInit{{Name: "Vx", E: lang.Int(1)}, {Name: "Vy", E: lang.Int(2)}}})
			}
			rest = append(rest, &lang.TopItem{Func: f, Label: f.Name})
		}
		at := rapid.IntRange(0, len(rest)).Draw(rt, "pkgInfoAt")
		rest = append(rest[:at], append([]*lang.TopItem{pk}, rest[at:]...)...)
		seqs = append(seqs, append(seq, rest...))
	}
	// merge the per-set sequences, each keeping its own order
	pos := make([]int, len(seqs))
	for {
		var live []int
		for i := range seqs {
			if pos[i] < len(seqs[i]) {
				live = append(live, i)
			}
		}
		if len(live) == 0 {
			break
		}
		i := live[rapid.IntRange(0, len(live)-1).Draw(rt, "mergeFrom")]
		items = append(items, seqs[i][pos[i]])
		pos[i]++
	}
	items = append(items, &lang.TopItem{Func: &lang.FuncDecl{Name: "main", Ret: lang.TUnit, Body: lang.Blk(lang.Call("frt.Println", lang.TUnit, lang.Str("done")))}, Label: "main"})
	var ls []string
	for l := range labels {
		ls = append(ls, l)
	}
	sort.Strings(ls)
	return items, ls
}

func TestSharedFieldRecords(t *testing.T) {
	e := vt.Get()
	defer e.Flush()
	if e.FC == "" {
		t.Skip("needs the orchestrator (VERIF_FC)")
	}
	rapid.Check(t, func(rt *rapid.T) {
		its, labels := genSharedState(rt)
		items := analyse(its)
		base := Run{Files: []File{{Path: "prog.fo", Content: fileText(items, seqInts(len(items)))}}}
		px := lang.Full
		px.MaxUnits, px.Probes, px.Generics, px.ReturnedFns = 2, false, false, false
		g2 := lang.NewGen(rt, px)
		g2.SetNameOffset(5000)
		extra := analyse(g2.GenProgramNoMain().Items)
		variant, transform, _ := transformed(rt, items, extra, 0)
		c := Case{Base: base, Variant: variant, Transform: transform}
		nt := transform[0] != "identity"
		for _, tr := range transform {
			labels = append(labels, "transform: "+strings.TrimLeft(regexp.MustCompile(`[0-9]+ `).ReplaceAllString(tr, ""), " "))
		}
		e.Record("TestSharedFieldRecords", vt.HashJSON(c), nt, labels, func() any {
			return map[string]any{"transform": transform, "base": base.Files[0].Content}
		})
		e.Check(rt, "history", c, func() error { return check(c) })
	})
}
