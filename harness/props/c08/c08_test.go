// C08: binary operators group by one fixed table and associate to the left.
//
// A chain is generated at the *token* level (operands and operators, no
// grouping). The reference parser groups it by the published table with the
// rule "split at the rightmost operator of the lowest rank" (not precedence
// climbing). fc's grouping is read back from the emitted Go with go/parser.
package c08

import (
	"encoding/json"
	"fmt"
	"go/ast"
	"go/parser"
	"go/token"
	"os"
	"path/filepath"
	"strings"
	"testing"
	"time"

	"pgregory.net/rapid"

	"verif/harness/pipeline"
	"verif/harness/vt"
)

// published table, from loosest
var rank = map[string]int{
	"|>": 1,
	"&&": 2, "||": 2, "<": 2, ">": 2, "<=": 2, ">=": 2,
	"=": 3, "<>": 3,
	"+": 4, "-": 4,
	"*": 5, "/": 5,
}

var ops12 = []string{"&&", "||", "<", ">", "<=", ">=", "=", "<>", "+", "-", "*", "/"}

// Operand of a chain.
type Operand struct {
	Kind  string `json:"kind"`            // leaf | app | paren | int (Name holds the digits)
	Name  string `json:"name,omitempty"`  // leaf: variable; app: function
	Arg   string `json:"arg,omitempty"`   // app: argument variable
	Not   bool   `json:"not,omitempty"`   // prefixed by `not`
	Chain *Chain `json:"chain,omitempty"` // paren
	Extra int    `json:"extra,omitempty"` // paren: number of redundant extra parentheses
}

type Chain struct {
	Operands []Operand `json:"operands"`
	Ops      []string  `json:"ops"`
	Breaks   []int     `json:"breaks,omitempty"` // Breaks[i] > 0: line break before operator i, continuation indented by that many columns
	// Tight[i] (arithmetic operators only): how operator i is spaced: 0 `a - b`, 1 `a -b`, 2 `a- b`, 3 `a-b`.
	// Blanks around a binary operator carry no meaning: `a -1` is a subtraction like `a - 1`.
	Tight []int `json:"tight,omitempty"`
}

// reference grouping ----------------------------------------------------------

func (o Operand) tree() string {
	var s string
	switch o.Kind {
	case "leaf", "int":
		s = o.Name
	case "app":
		s = "(app " + o.Name + " " + o.Arg + ")"
	case "paren":
		s = o.Chain.tree()
	}
	if o.Not {
		s = "(not " + s + ")"
	}
	return s
}

func (c *Chain) tree() string { return groupRef(c.Operands, c.Ops) }

// groupRef: the root is the rightmost operator of the lowest rank (operators
// of equal rank associate to the left, lower ranks bind looser).
func groupRef(operands []Operand, ops []string) string {
	if len(ops) == 0 {
		return operands[0].tree()
	}
	best := -1
	for i, op := range ops {
		if best < 0 || rank[op] <= rank[ops[best]] {
			best = i
		}
	}
	l := groupRef(operands[:best+1], ops[:best])
	r := groupRef(operands[best+1:], ops[best+1:])
	return "(" + ops[best] + " " + l + " " + r + ")"
}

// resultKind gives "int", "bool" or "any" for a reference tree and reports
// whether the tree is well typed when every variable may take any type.
// It is only used to decide whether a *rejection* by fc may be ignored.
type tnode struct {
	op   string
	kids []*tnode
	leaf bool
}

func parseTree(s string) *tnode {
	toks := strings.Fields(strings.NewReplacer("(", " ( ", ")", " ) ").Replace(s))
	pos := 0
	var rec func() *tnode
	rec = func() *tnode {
		if toks[pos] != "(" {
			pos++
			return &tnode{leaf: true, op: toks[pos-1]}
		}
		pos++
		n := &tnode{op: toks[pos]}
		pos++
		for toks[pos] != ")" {
			n.kids = append(n.kids, rec())
		}
		pos++
		return n
	}
	return rec()
}

func wellTyped(n *tnode) (kind string, ok bool) {
	if n.leaf {
		if n.op != "" && n.op[0] >= '0' && n.op[0] <= '9' {
			return "int", true
		}
		return "any", true
	}
	var ks []string
	for _, k := range n.kids {
		kk, ok := wellTyped(k)
		if !ok {
			return "", false
		}
		ks = append(ks, kk)
	}
	fits := func(k, want string) bool { return k == "any" || k == want }
	switch n.op {
	case "+", "-", "*", "/":
		return "int", fits(ks[0], "int") && fits(ks[1], "int")
	case "<", ">", "<=", ">=":
		return "bool", fits(ks[0], "int") && fits(ks[1], "int")
	case "&&", "||":
		return "bool", fits(ks[0], "bool") && fits(ks[1], "bool")
	case "=", "<>":
		return "bool", ks[0] == "any" || ks[1] == "any" || ks[0] == ks[1]
	case "not":
		return "bool", fits(ks[0], "bool")
	case "app":
		return "any", true
	case "|>":
		return "any", ks[1] == "any"
	}
	return "any", true
}

// source -----------------------------------------------------------------------

func (o Operand) src() string {
	var s string
	switch o.Kind {
	case "leaf", "int":
		s = o.Name
	case "app":
		s = o.Name + " " + o.Arg
	case "paren":
		s = "(" + strings.Repeat("(", o.Extra) + o.Chain.src(0) + strings.Repeat(")", o.Extra) + ")"
	}
	if o.Not {
		s = "not " + s
	}
	return s
}

func (c *Chain) src(baseIndent int) string {
	var sb strings.Builder
	sb.WriteString(c.Operands[0].src())
	for i, op := range c.Ops {
		if baseIndent > 0 && i < len(c.Breaks) && c.Breaks[i] > 0 {
			sb.WriteString("\n" + strings.Repeat(" ", baseIndent+c.Breaks[i]-1) + op + " ")
		} else {
			switch tight := c.tightAt(i); tight {
			case 1:
				sb.WriteString(" " + op)
			case 2:
				sb.WriteString(op + " ")
			case 3:
				sb.WriteString(op)
			default:
				sb.WriteString(" " + op + " ")
			}
		}
		sb.WriteString(c.Operands[i+1].src())
	}
	return sb.String()
}

func (c *Chain) tightAt(i int) int {
	if i >= len(c.Tight) || c.Operands[i+1].Not {
		return 0
	}
	switch c.Ops[i] {
	case "+", "-", "*", "/":
		return c.Tight[i]
	}
	return 0
}

func (c *Chain) names(set map[string]bool, order *[]string) {
	add := func(n string) {
		if !set[n] {
			set[n] = true
			*order = append(*order, n)
		}
	}
	for _, o := range c.Operands {
		switch o.Kind {
		case "leaf":
			add(o.Name)
		case "app":
			add(o.Name)
			if !strings.Contains(o.Arg, ".") {
				add(o.Arg)
			}
		case "paren":
			o.Chain.names(set, order)
		}
	}
}

func (c *Chain) hasBreak() bool {
	for _, b := range c.Breaks {
		if b > 0 {
			return true
		}
	}
	return false
}

// funcSrc renders `let <name> <params> = <chain>`; a chain with line breaks
// is put on its own lines below the `let`.
func funcSrc(name string, c *Chain) string {
	set := map[string]bool{}
	var order []string
	c.names(set, &order)
	head := "let " + name + " " + strings.Join(order, " ") + " ="
	if c.hasBreak() {
		return head + "\n  " + c.src(2) + "\n"
	}
	return head + " " + c.src(0) + "\n"
}

// reading fc's grouping back -----------------------------------------------------

var goOp = map[token.Token]string{
	token.ADD: "+", token.SUB: "-", token.MUL: "*", token.QUO: "/",
	token.LSS: "<", token.GTR: ">", token.LEQ: "<=", token.GEQ: ">=",
	token.LAND: "&&", token.LOR: "||", token.EQL: "=", token.NEQ: "<>",
}

func goTree(e ast.Expr) (string, error) {
	switch x := e.(type) {
	case *ast.ParenExpr:
		return goTree(x.X)
	case *ast.Ident:
		return x.Name, nil
	case *ast.BasicLit:
		return x.Value, nil
	case *ast.SelectorExpr:
		if id, ok := x.X.(*ast.Ident); ok {
			return id.Name + "." + x.Sel.Name, nil
		}
		return "", fmt.Errorf("unsupported selector")
	case *ast.BinaryExpr:
		op, ok := goOp[x.Op]
		if !ok {
			return "", fmt.Errorf("unexpected Go operator %s", x.Op)
		}
		l, err := goTree(x.X)
		if err != nil {
			return "", err
		}
		r, err := goTree(x.Y)
		if err != nil {
			return "", err
		}
		return "(" + op + " " + l + " " + r + ")", nil
	case *ast.UnaryExpr:
		if x.Op == token.NOT {
			s, err := goTree(x.X)
			return "(not " + s + ")", err
		}
		return "", fmt.Errorf("unexpected unary %s", x.Op)
	case *ast.CallExpr:
		fun := x.Fun
		for {
			switch f := fun.(type) {
			case *ast.IndexExpr:
				fun = f.X
				continue
			case *ast.IndexListExpr:
				fun = f.X
				continue
			case *ast.ParenExpr:
				fun = f.X
				continue
			}
			break
		}
		var args []string
		for _, a := range x.Args {
			s, err := goTree(a)
			if err != nil {
				return "", err
			}
			args = append(args, s)
		}
		name := ""
		switch f := fun.(type) {
		case *ast.Ident:
			name = f.Name
		case *ast.SelectorExpr:
			if id, ok := f.X.(*ast.Ident); ok {
				name = id.Name + "." + f.Sel.Name
			}
		}
		switch name {
		case "frt.OpEqual":
			if len(args) == 2 {
				return "(= " + args[0] + " " + args[1] + ")", nil
			}
		case "frt.OpNotEqual":
			if len(args) == 2 {
				return "(<> " + args[0] + " " + args[1] + ")", nil
			}
		case "frt.OpNot":
			if len(args) == 1 {
				return "(not " + args[0] + ")", nil
			}
		case "frt.Pipe", "frt.PipeUnit":
			if len(args) == 2 {
				return "(|> " + args[0] + " " + args[1] + ")", nil
			}
		case "":
			return "", fmt.Errorf("unsupported call head %T", fun)
		}
		return "(app " + name + " " + strings.Join(args, " ") + ")", nil
	}
	return "", fmt.Errorf("unsupported Go expression %T", e)
}

// emittedTrees parses a gen file and returns, per function name, the operator
// tree of its return expression.
func emittedTrees(goSrc string) (map[string]string, error) {
	fset := token.NewFileSet()
	f, err := parser.ParseFile(fset, "gen.go", goSrc, 0)
	if err != nil {
		return nil, fmt.Errorf("emitted Go does not parse: %v", err)
	}
	out := map[string]string{}
	for _, d := range f.Decls {
		fd, ok := d.(*ast.FuncDecl)
		if !ok || fd.Body == nil {
			continue
		}
		for _, st := range fd.Body.List {
			switch s := st.(type) {
			case *ast.ReturnStmt:
				if len(s.Results) == 1 {
					t, err := goTree(s.Results[0])
					if err != nil {
						t = "ERR: " + err.Error()
					}
					out[fd.Name.Name] = t
				}
			case *ast.ExprStmt: // a unit-typed body (pipe into a unit function) has no return
				t, err := goTree(s.X)
				if err != nil {
					t = "ERR: " + err.Error()
				}
				out[fd.Name.Name] = t
			}
		}
	}
	return out, nil
}

// the check ----------------------------------------------------------------------

// Case is one function in one file, with the tree the published table gives.
type Case struct {
	Src  string `json:"src"`
	Fn   string `json:"fn"`
	Want string `json:"want"`
}

type fcOut struct {
	rejected bool
	diag     string
	trees    map[string]string
}

var fileSeq int

func runFC(e *vt.Env, fc, src string) (fcOut, error) {
	fileSeq++
	dir := filepath.Join(e.Scratch, fmt.Sprintf("w%d", fileSeq%8))
	os.MkdirAll(dir, 0o755)
	fo := filepath.Join(dir, "ops.fo")
	gen := filepath.Join(dir, "gen_ops.go")
	os.Remove(gen)
	if err := os.WriteFile(fo, []byte("package main\n\n"+src), 0o644); err != nil {
		return fcOut{}, err
	}
	r := pipeline.RunFC(fc, dir, 60*time.Second, filepath.Join(e.Repo, "pkg", "pkg_all.foi"), "ops.fo")
	if r.TimedOut {
		return fcOut{}, fmt.Errorf("fc timed out")
	}
	if r.Exit != 0 {
		return fcOut{rejected: true, diag: pipeline.Clip(r.Combined(), 600)}, nil
	}
	b, err := os.ReadFile(gen)
	if err != nil {
		return fcOut{rejected: true, diag: "exit 0 but no gen_ops.go"}, nil
	}
	trees, err := emittedTrees(string(b))
	if err != nil {
		return fcOut{}, fmt.Errorf("%v\n%s", err, pipeline.Clip(string(b), 800))
	}
	return fcOut{trees: trees}, nil
}

var skippedIllTyped int

func checkWith(e *vt.Env, fc string, c Case) error {
	out, err := runFC(e, fc, c.Src)
	if err != nil {
		return err
	}
	if out.rejected {
		if _, ok := wellTyped(parseTree(c.Want)); !ok {
			skippedIllTyped++
			if os.Getenv("VERIF_DEBUG") != "" {
				fmt.Fprintf(os.Stderr, "SKIP %s  want=%s\n  %s\n", c.Src, c.Want, strings.ReplaceAll(out.diag, "\n", " | "))
			}
			return nil // fc may reject an ill-typed chain; grouping is then undecided
		}
		return fmt.Errorf("fc rejects a well-typed operator chain:\n%s\n%s", c.Src, out.diag)
	}
	got, ok := out.trees[c.Fn]
	if !ok {
		return fmt.Errorf("no function %s in the emitted Go for\n%s", c.Fn, c.Src)
	}
	if got != c.Want {
		return fmt.Errorf("grouping differs for\n%s published table: %s\n fc emitted:       %s", c.Src, c.Want, got)
	}
	return nil
}

func check(c Case) error {
	e := vt.Get()
	if err := checkWith(e, e.FC, c); err != nil {
		return err
	}
	if e.FCB != "" {
		if err := checkWith(e, e.FCB, c); err != nil {
			return fmt.Errorf("(compiler regenerated from fc/*.fo) %v", err)
		}
	}
	return nil
}

// exhaustive enumeration -------------------------------------------------------------

var leafNames = []string{"a", "b", "c", "d", "e", "p", "q"}

func chainOf(ops []string) *Chain {
	c := &Chain{Ops: ops}
	for i := 0; i <= len(ops); i++ {
		c.Operands = append(c.Operands, Operand{Kind: "leaf", Name: leafNames[i]})
	}
	return c
}

func ntChain(c *Chain) bool {
	ranks := map[int]bool{}
	for _, op := range c.Ops {
		ranks[rank[op]] = true
	}
	if len(c.Ops) >= 2 && len(ranks) >= 2 {
		return true
	}
	// equal ranks across a line break
	for i := 1; i < len(c.Ops); i++ {
		if rank[c.Ops[i]] == rank[c.Ops[i-1]] && i < len(c.Breaks) && c.Breaks[i] > 0 {
			return true
		}
	}
	for _, o := range c.Operands {
		if o.Kind == "paren" && ntChain(o.Chain) {
			return true
		}
	}
	return false
}

func TestChainsExhaustive(t *testing.T) {
	e := vt.Get()
	defer e.Flush()
	if e.FC == "" {
		t.Skip("needs the orchestrator (VERIF_FC)")
	}
	maxOps := 4
	var all [][]string
	var rec func(prefix []string, n int)
	rec = func(prefix []string, n int) {
		if n == 0 {
			all = append(all, append([]string{}, prefix...))
			return
		}
		for _, op := range ops12 {
			rec(append(prefix, op), n-1)
		}
	}
	for n := 1; n <= maxOps; n++ {
		rec(nil, n)
	}
	const perFile = 150
	var mine [][]string
	for i, ch := range all {
		if (i/perFile)%e.NShards == e.Shard {
			mine = append(mine, ch)
		}
	}
	for start := 0; start < len(mine); start += perFile {
		end := min(start+perFile, len(mine))
		var sb strings.Builder
		type item struct {
			fn   string
			c    *Chain
			want string
		}
		var items []item
		for i, ops := range mine[start:end] {
			c := chainOf(ops)
			fn := fmt.Sprintf("c%d", i)
			items = append(items, item{fn, c, c.tree()})
			sb.WriteString(funcSrc(fn, c))
			sb.WriteString("\n")
		}
		for _, fc := range []string{e.FC, e.FCB} {
			if fc == "" {
				continue
			}
			out, err := runFC(e, fc, sb.String())
			if err != nil {
				t.Fatalf("harness: %v", err)
			}
			for _, it := range items {
				single := Case{Src: funcSrc(it.fn, it.c), Fn: it.fn, Want: it.want}
				if out.rejected || out.trees[it.fn] != it.want {
					// decide on the single function (also the replayable unit)
					e.Check(t, "chain", single, func() error { return check(single) })
				}
			}
			if out.rejected {
				// every single function passed alone, yet the batch is rejected
				whole := Case{Src: sb.String(), Fn: items[0].fn, Want: items[0].want}
				e.Check(t, "chain", whole, func() error { return check(whole) })
			}
		}
		for _, it := range items {
			e.Record("TestChainsExhaustive", vt.Hash(strings.Join(it.c.Ops, " ")), ntChain(it.c), []string{fmt.Sprintf("%d operators", len(it.c.Ops))}, func() any {
				return map[string]any{"source": funcSrc(it.fn, it.c), "tree": it.want}
			})
		}
	}
	e.Meta("TestChainsExhaustive", map[string]any{"exhaustive": true, "domain": fmt.Sprintf("every sequence of 1..%d operators over the 12 non-pipe operators between distinct variables", maxOps), "chains": len(all), "rejected_ill_typed_skipped": skippedIllTyped})
}

// sampled: applications, parentheses, not, line breaks, pipes ------------------------

func genChain(t *rapid.T, depth int, nameCtr *int, allowBreaks bool) *Chain {
	fresh := func(prefix string) string {
		*nameCtr++
		return fmt.Sprintf("%s%d", prefix, *nameCtr)
	}
	n := rapid.IntRange(1, 5).Draw(t, "nops")
	if depth > 0 {
		n = rapid.IntRange(1, 3).Draw(t, "nopsInner")
	}
	c := &Chain{}
	// |> is the loosest operator, so whatever follows a pipe stage up to the
	// next |> is part of the stage: a well-typed chain has its pipes at the
	// end, each followed by one function-valued operand.
	npipes := 0
	if rapid.IntRange(0, 3).Draw(t, "pipes") == 0 {
		npipes = rapid.IntRange(1, 3).Draw(t, "npipes")
	}
	if rapid.IntRange(0, 15).Draw(t, "pipeOnly") == 0 {
		n = 0
		npipes = rapid.IntRange(1, 3).Draw(t, "npipes2")
	}
	for i := 0; i < n; i++ {
		c.Ops = append(c.Ops, rapid.SampledFrom(ops12).Draw(t, "op"))
	}
	for i := 0; i < npipes; i++ {
		c.Ops = append(c.Ops, "|>")
	}
	for i := 0; i <= n+npipes; i++ {
		var o Operand
		afterPipe := i > 0 && c.Ops[i-1] == "|>"
		k := rapid.IntRange(0, 10).Draw(t, "operandKind")
		switch {
		case !afterPipe && k == 10:
			o = Operand{Kind: "int", Name: rapid.SampledFrom([]string{"0", "1", "7", "10", "255"}).Draw(t, "intLit")}
		case afterPipe:
			// the right operand of |> is a function: a function variable, or
			// (sometimes) a parenthesised function variable
			o = Operand{Kind: "leaf", Name: fresh("f")}
			if k == 9 {
				o = Operand{Kind: "paren", Chain: &Chain{Operands: []Operand{{Kind: "leaf", Name: fresh("f")}}}}
			}
		case k <= 4:
			o = Operand{Kind: "leaf", Name: fresh("v")}
		case k <= 6:
			o = Operand{Kind: "app", Name: fresh("g"), Arg: fresh("v")}
			if rapid.IntRange(0, 3).Draw(t, "qualifiedArg") == 0 {
				// a package-qualified function name as the argument: `g strings.Length < v`
				o.Arg = rapid.SampledFrom([]string{"strings.Length", "slice.Length", "strings.IsEmpty"}).Draw(t, "qname")
			}
		default:
			if depth < 2 {
				o = Operand{Kind: "paren", Chain: genChain(t, depth+1, nameCtr, false), Extra: rapid.SampledFrom([]int{0, 0, 0, 1}).Draw(t, "extraParens")}
			} else {
				o = Operand{Kind: "leaf", Name: fresh("v")}
			}
		}
		if !afterPipe && rapid.IntRange(0, 7).Draw(t, "not") == 0 {
			o.Not = true
		}
		c.Operands = append(c.Operands, o)
	}
	if depth == 0 {
		// a function needs a parameter: at least one operand is a variable
		set, order := map[string]bool{}, []string{}
		c.names(set, &order)
		if len(order) == 0 {
			c.Operands[0] = Operand{Kind: "leaf", Name: fresh("v")}
		}
	}
	n += npipes
	if rapid.IntRange(0, 2).Draw(t, "spacing") == 0 {
		for i := 0; i < n; i++ {
			c.Tight = append(c.Tight, rapid.SampledFrom([]int{0, 0, 1, 1, 2, 3}).Draw(t, "tight"))
		}
	}
	if allowBreaks && rapid.IntRange(0, 2).Draw(t, "layout") == 0 {
		for i := 0; i < n; i++ {
			b := 0
			if rapid.IntRange(0, 2).Draw(t, "break") == 0 {
				b = rapid.IntRange(1, 5).Draw(t, "contIndent")
			}
			c.Breaks = append(c.Breaks, b)
		}
	}
	return c
}

func features(c *Chain, f map[string]bool) {
	if c.hasBreak() {
		f["line break before an operator"] = true
	}
	for _, op := range c.Ops {
		if op == "|>" {
			f["pipe"] = true
		}
	}
	for i := range c.Ops {
		if c.tightAt(i) != 0 {
			f["arithmetic operator written without a blank on one or both sides"] = true
		}
	}
	for _, o := range c.Operands {
		if o.Not {
			f["not"] = true
		}
		switch o.Kind {
		case "int":
			f["integer literal operand"] = true
		case "app":
			f["application operand"] = true
			if strings.Contains(o.Arg, ".") {
				f["package-qualified name before an operator"] = true
			}
		case "paren":
			f["parenthesised sub-chain"] = true
			if o.Extra > 0 {
				f["redundant parentheses"] = true
			}
			features(o.Chain, f)
		}
	}
}

func TestChainsSampled(t *testing.T) {
	e := vt.Get()
	defer e.Flush()
	if e.FC == "" {
		t.Skip("needs the orchestrator (VERIF_FC)")
	}
	rapid.Check(t, func(rt *rapid.T) {
		ctr := 0
		c := genChain(rt, 0, &ctr, true)
		cs := Case{Src: funcSrc("chain", c), Fn: "chain", Want: c.tree()}
		f := map[string]bool{}
		features(c, f)
		var labels []string
		for k := range f {
			labels = append(labels, k)
		}
		labels = append(labels, fmt.Sprintf("%d top-level operators", len(c.Ops)))
		before := skippedIllTyped
		e.Check(rt, "chain", cs, func() error { return check(cs) })
		if skippedIllTyped > before {
			labels = append(labels, "rejected by fc (ill-typed chain, skipped)")
		}
		e.Record("TestChainsSampled", vt.Hash(cs.Src), ntChain(c), labels, func() any { return cs })
	})
}

func TestReplay(t *testing.T) {
	e := vt.Get()
	e.RunReplay(t, map[string]func(json.RawMessage) error{
		"chain": vt.Handler(check),
	})
}
