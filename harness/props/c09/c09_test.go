// C09: a union match without default is accepted exactly when it covers every
// case.
package c09

import (
	"encoding/json"
	"fmt"
	"go/ast"
	"go/parser"
	"go/token"
	"os"
	"path/filepath"
	"regexp"
	"strings"
	"testing"
	"time"

	"pgregory.net/rapid"

	"verif/harness/pipeline"
	"verif/harness/vt"
)

// Arm of a match: which case, and how the payload is written.
type Arm struct {
	Case int    `json:"case"`
	Form string `json:"form"` // bind | ignore | none (payload case); bare (no payload)
}

// Cand is one candidate match.
type Cand struct {
	N       int    `json:"n"`       // number of cases of the union
	Mask    int    `json:"mask"`    // bit i set: case i has an int payload
	Arms    []Arm  `json:"arms"`    // in source order
	Default bool   `json:"default"` // trailing `| _ ->`
	Ctx     string `json:"ctx,omitempty"`
	Decl    string `json:"decl,omitempty"` // plain | generic | andgroup | otherfile
}

func (c Cand) hasPayload(i int) bool { return c.Mask&(1<<i) != 0 }

func (c Cand) uncovered() []int {
	cov := map[int]bool{}
	for _, a := range c.Arms {
		cov[a.Case] = true
	}
	var out []int
	for i := 0; i < c.N; i++ {
		if !cov[i] {
			out = append(out, i)
		}
	}
	return out
}

// mustReject is the property's right-hand side.
func (c Cand) mustReject() bool { return !c.Default && len(c.uncovered()) > 0 }

// caseName: case i of the matched union; negative numbers name something that is NOT a case of it
// (used only in arms that do not bind a payload, and only in candidates that must be rejected anyway
// because a real case is missing): -1 a payload-less case of the other union Outer, -2 an undeclared name.
func untypedTarget(ctx string) bool { return ctx == "untypedlambda" || ctx == "untypedexpr" }

func caseName(i int) string {
	switch i {
	case -1:
		return "Second"
	case -2:
		return "Kase9x"
	}
	return fmt.Sprintf("Kase%d", i)
}

func (c Cand) typeDecl() (decl string, tname string, targ string) {
	var sb strings.Builder
	payload := "int"
	switch c.Decl {
	case "generic":
		sb.WriteString("type U<T> =\n")
		payload = "T"
		targ = "U<int>"
	default:
		sb.WriteString("type U =\n")
		targ = "U"
	}
	for i := 0; i < c.N; i++ {
		if c.hasPayload(i) {
			fmt.Fprintf(&sb, "  | %s of %s\n", caseName(i), payload)
		} else {
			fmt.Fprintf(&sb, "  | %s\n", caseName(i))
		}
	}
	if c.Decl == "andgroup" {
		sb.WriteString("and W =\n  | WrapU of U\n  | Nothing\n")
	}
	return sb.String(), "U", targ
}

// armsSrc renders the match on variable v at the given indentation.
func (c Cand) matchSrc(v string, ind int) string {
	pad := strings.Repeat(" ", ind)
	var sb strings.Builder
	fmt.Fprintf(&sb, "%smatch %s with\n", pad, v)
	for k, a := range c.Arms {
		switch a.Form {
		case "bind":
			fmt.Fprintf(&sb, "%s| %s x%d -> x%d + %d\n", pad, caseName(a.Case), k, k, 100*(k+1))
		case "ignore":
			fmt.Fprintf(&sb, "%s| %s _ -> %d\n", pad, caseName(a.Case), 100*(k+1))
		default:
			fmt.Fprintf(&sb, "%s| %s -> %d\n", pad, caseName(a.Case), 100*(k+1))
		}
	}
	if c.Default {
		fmt.Fprintf(&sb, "%s| _ -> 9999\n", pad)
	}
	return sb.String()
}

// funcSrc renders one function containing the match in the candidate's context.
func (c Cand) funcSrc(name string) string {
	_, _, targ := c.typeDecl()
	switch c.Ctx {
	case "", "direct":
		return fmt.Sprintf("let %s (u:%s) =\n%s", name, targ, c.matchSrc("u", 2))
	case "letrhs":
		return fmt.Sprintf("let %s (u:%s) =\n  let r =\n%s  r + 1\n", name, targ, c.matchSrc("u", 4))
	case "ifbranch":
		return fmt.Sprintf("let %s (u:%s) (b:bool) =\n  if b then\n%s  else\n    0\n", name, targ, c.matchSrc("u", 4))
	case "elsebranch":
		return fmt.Sprintf("let %s (u:%s) (b:bool) =\n  if b then\n    0\n  else\n%s", name, targ, c.matchSrc("u", 4))
	case "outerarm":
		return fmt.Sprintf("let %s (u:%s) (o:Outer) =\n  match o with\n  | First ->\n%s  | Second -> 0\n", name, targ, c.matchSrc("u", 4))
	case "outerlastarm":
		return fmt.Sprintf("let %s (u:%s) (o:Outer) =\n  match o with\n  | Second -> 0\n  | First ->\n%s", name, targ, c.matchSrc("u", 4))
	case "outerarmdefault":
		// the `| _ ->` that follows belongs to the outer match (it sits at the column of the outer arms)
		return fmt.Sprintf("let %s (u:%s) (o:Outer) =\n  match o with\n  | First ->\n%s  | _ -> 0\n", name, targ, c.matchSrc("u", 4))
	case "strarmdefault":
		return fmt.Sprintf("let %s (u:%s) (s:string) =\n  match s with\n  | \"a\" ->\n%s  | _ -> 0\n", name, targ, c.matchSrc("u", 4))
	case "ctortarget", "unannotatedctor", "genericfn":
		// the target is built on the spot from a payload case, so for a generic union its type argument is still
		// an inference variable when the match is parsed: the cases of a union do not depend on it
		p := -1
		for i := 0; i < c.N; i++ {
			if c.hasPayload(i) {
				p = i
				break
			}
		}
		if p < 0 {
			return fmt.Sprintf("let %s (u:%s) =\n%s", name, targ, c.matchSrc("u", 2))
		}
		switch c.Ctx {
		case "ctortarget":
			return fmt.Sprintf("let %s (n:int) =\n%s", name, c.matchSrc(caseName(p)+" n", 2))
		case "unannotatedctor":
			return fmt.Sprintf("let %s d =\n  let o = %s d\n%s", name, caseName(p), c.matchSrc("o", 2))
		default:
			return fmt.Sprintf("let wrap%s x = %s x\n\nlet %s (n:int) =\n%s", name, caseName(p), name, c.matchSrc("wrap"+name+" n", 2))
		}
	case "earlierarmbinder":
		// an EARLIER arm of the enclosing match binds its payload under the name of the matched parameter;
		// the binding ends with that arm, so the match below still sees u:U
		return fmt.Sprintf("let %s (u:%s) (p:Pay) =\n  match p with\n  | Carry u -> slice.Length [u]\n  | CarryO u ->\n    match u with\n    | First -> 1\n    | Second -> 2\n  | Plain ->\n%s", name, targ, c.matchSrc("u", 4))
	case "afterbinder":
		// the same, the binding match finished before the candidate starts
		return fmt.Sprintf("let %s (u:%s) (p:Pay) =\n  let d =\n    match p with\n    | Carry u -> slice.Length [u]\n    | CarryO u ->\n      match u with\n      | First -> 1\n      | Second -> 2\n    | Plain -> 0\n  if d > 100 then\n    d\n  else\n%s", name, targ, c.matchSrc("u", 4))
	case "untypedlambda":
		// the target is an un-annotated lambda parameter: its type is only known after inference
		return fmt.Sprintf("let %s (us:[]%s) =\n  let f = fun w ->\n%s  slice.Map f us\n", name, targ, c.matchSrc("w", 10))
	case "untypedexpr":
		// the target is an expression whose type is an instance of a generic signature
		return fmt.Sprintf("let %s (us:[]%s) =\n%s", name, targ, c.matchSrc("(slice.Head us)", 2))
	case "lambda":
		return fmt.Sprintf("let %s (us:[]%s) =\n  let f = fun (w:%s) ->\n%s  slice.Map f us\n", name, targ, targ, c.matchSrc("w", 10))
	case "localfunc":
		return fmt.Sprintf("let %s (u:%s) =\n  let inner (w:%s) =\n%s  inner u\n", name, targ, targ, c.matchSrc("w", 4))
	case "letbound":
		// the matched value is let-bound from a constructor-typed parameter
		return fmt.Sprintf("let %s (u:%s) =\n  let v = u\n%s", name, targ, c.matchSrc("v", 2))
	}
	panic("unknown ctx " + c.Ctx)
}

const outerDecl = "type Outer =\n  | First\n  | Second\n\ntype Pay =\n  | Carry of string\n  | CarryO of Outer\n  | Plain\n\n"

// Files renders the candidate as the .fo files of one fc invocation.
func (c Cand) files() (names []string, contents []string) {
	decl, _, _ := c.typeDecl()
	head := "package main\n\nimport slice\n\n"
	body := outerDecl + c.funcSrc("m")
	if c.Decl == "otherfile" {
		return []string{"types.fo", "m.fo"}, []string{head + decl, head + body}
	}
	return []string{"m.fo"}, []string{head + decl + "\n" + body}
}

// --- running fc ----------------------------------------------------------------

const sentinel = "// SENTINEL: this file must survive a rejected transpilation\n"

var pkgAll string

type outcome struct {
	exit   int
	out    string
	gen    map[string]string // gen file name -> content ("" = absent)
	timely bool
}

var seq int

func runFiles(e *vt.Env, fc string, names, contents []string) (outcome, error) {
	seq++
	dir := filepath.Join(e.Scratch, fmt.Sprintf("w%d", seq%4))
	os.RemoveAll(dir)
	os.MkdirAll(dir, 0o755)
	o := outcome{gen: map[string]string{}}
	for i, n := range names {
		if err := os.WriteFile(filepath.Join(dir, n), []byte(contents[i]), 0o644); err != nil {
			return o, err
		}
		g := "gen_" + strings.TrimSuffix(n, ".fo") + ".go"
		os.WriteFile(filepath.Join(dir, g), []byte(sentinel), 0o644)
	}
	args := append([]string{filepath.Join(e.Repo, "pkg", "pkg_all.foi")}, names...)
	r := pipeline.RunFC(fc, dir, 60*time.Second, args...)
	if r.TimedOut || r.Signal != "" || r.Err != nil {
		return o, fmt.Errorf("fc did not finish normally: %s", r.String())
	}
	o.exit = r.Exit
	o.out = r.Combined()
	for _, n := range names {
		g := "gen_" + strings.TrimSuffix(n, ".fo") + ".go"
		b, err := os.ReadFile(filepath.Join(dir, g))
		if err == nil {
			o.gen[g] = string(b)
		}
	}
	return o, nil
}

var reKase = regexp.MustCompile(`\bKase(\d+)\b`)

// switchArms extracts, for function fn, the case type names of its first type
// switch in order, whether a default clause exists and whether that default
// panics.
func switchArms(goSrc, fn string) (cases []string, hasDefault, defaultPanics bool, err error) {
	fset := token.NewFileSet()
	f, perr := parser.ParseFile(fset, "gen.go", goSrc, 0)
	if perr != nil {
		return nil, false, false, fmt.Errorf("emitted Go does not parse: %v", perr)
	}
	for _, d := range f.Decls {
		fd, ok := d.(*ast.FuncDecl)
		if !ok || fd.Name.Name != fn || fd.Body == nil {
			continue
		}
		var ts *ast.TypeSwitchStmt
		ast.Inspect(fd.Body, func(n ast.Node) bool {
			if ts != nil {
				return false
			}
			if s, ok := n.(*ast.TypeSwitchStmt); ok {
				// the candidate's match is the innermost/only one over Kase types
				for _, cl := range s.Body.List {
					cc := cl.(*ast.CaseClause)
					for _, te := range cc.List {
						if strings.Contains(exprString(te), "Kase") {
							ts = s
							return false
						}
					}
				}
			}
			return true
		})
		if ts == nil {
			return nil, false, false, fmt.Errorf("no type switch over the union in %s", fn)
		}
		for _, cl := range ts.Body.List {
			cc := cl.(*ast.CaseClause)
			if cc.List == nil {
				hasDefault = true
				for _, st := range cc.Body {
					if es, ok := st.(*ast.ExprStmt); ok {
						if call, ok := es.X.(*ast.CallExpr); ok {
							if id, ok := call.Fun.(*ast.Ident); ok && id.Name == "panic" {
								defaultPanics = true
							}
						}
					}
				}
				continue
			}
			for _, te := range cc.List {
				cases = append(cases, exprString(te))
			}
		}
		return cases, hasDefault, defaultPanics, nil
	}
	return nil, false, false, fmt.Errorf("function %s not found in emitted Go", fn)
}

func exprString(e ast.Expr) string {
	switch x := e.(type) {
	case *ast.Ident:
		return x.Name
	case *ast.IndexExpr:
		return exprString(x.X)
	case *ast.IndexListExpr:
		return exprString(x.X)
	case *ast.SelectorExpr:
		return exprString(x.X) + "." + x.Sel.Name
	}
	return fmt.Sprintf("%T", e)
}

func checkWith(e *vt.Env, fc string, c Cand) error {
	names, contents := c.files()
	o, err := runFiles(e, fc, names, contents)
	if err != nil {
		return err
	}
	src := strings.Join(contents, "\n-----\n")
	genName := "gen_m.go"
	if c.mustReject() {
		if o.exit == 0 {
			return fmt.Errorf("a match without default that omits %v was ACCEPTED (exit 0):\n%s", caseNames(c.uncovered()), src)
		}
		unc := map[string]bool{}
		for _, i := range c.uncovered() {
			unc[caseName(i)] = true
		}
		ms := reKase.FindAllString(o.out, -1)
		if untypedTarget(c.Ctx) {
			// fc cannot type the target where the match is parsed and turns such a match down whatever its
			// arms are ("Unknown case rule of match expr"): the candidate must be rejected, with some
			// diagnostic, but which case is missing is not what fc complains about
			if strings.TrimSpace(o.out) == "" {
				return fmt.Errorf("rejected without any diagnostic for\n%s", src)
			}
			ms = nil
		} else if len(ms) == 0 {
			return fmt.Errorf("rejected, but the diagnostic names no uncovered case (uncovered: %v):\n%s\nfor\n%s", caseNames(c.uncovered()), pipeline.Clip(o.out, 500), src)
		}
		for _, m := range ms {
			if !unc[m] {
				return fmt.Errorf("rejected, but the diagnostic names %s, which is covered (uncovered: %v):\n%s\nfor\n%s", m, caseNames(c.uncovered()), pipeline.Clip(o.out, 500), src)
			}
		}
		if g, ok := o.gen[genName]; !ok || g != sentinel {
			return fmt.Errorf("rejected, but %s was written/removed (content now %q) for\n%s", genName, pipeline.Clip(g, 200), src)
		}
		return nil
	}
	if o.exit != 0 {
		return fmt.Errorf("a match that %s was REJECTED (exit %d):\n%s\nfor\n%s", acceptReason(c), o.exit, pipeline.Clip(o.out, 500), src)
	}
	g, ok := o.gen[genName]
	if !ok || g == sentinel {
		return fmt.Errorf("accepted (exit 0) but %s was not written for\n%s", genName, src)
	}
	cases, hasDefault, defaultPanics, err := switchArms(g, "m")
	if c.Ctx == "lambda" || c.Ctx == "localfunc" {
		// the switch sits in a closure inside m: same extraction applies (ast.Inspect descends)
	}
	if err != nil {
		return fmt.Errorf("%v\nfor\n%s\nemitted:\n%s", err, src, pipeline.Clip(g, 1500))
	}
	var want []string
	for _, a := range c.Arms {
		want = append(want, "U_"+caseName(a.Case))
	}
	if strings.Join(cases, ",") != strings.Join(want, ",") {
		return fmt.Errorf("emitted type switch has cases %v, the source arms are %v, for\n%s", cases, want, src)
	}
	if !hasDefault {
		return fmt.Errorf("emitted type switch has neither the user default nor the 'never reached' panic, for\n%s", src)
	}
	if c.Default && defaultPanics {
		return fmt.Errorf("the user's default arm was replaced by a panic, for\n%s", src)
	}
	if !c.Default && !defaultPanics {
		return fmt.Errorf("a match without default got a non-panicking default clause, for\n%s", src)
	}
	return nil
}

func caseNames(is []int) []string {
	var out []string
	for _, i := range is {
		out = append(out, caseName(i))
	}
	return out
}

func acceptReason(c Cand) string {
	if c.Default {
		return "ends with a default arm"
	}
	return "lists all cases"
}

func check(c Cand) error {
	e := vt.Get()
	if err := checkWith(e, e.FC, c); err != nil {
		return err
	}
	if e.FCB != "" {
		if err := checkWith(e, e.FCB, c); err != nil {
			return fmt.Errorf("(compiler regenerated from fc/*.fo) %v", err)
		}
	}
	return nil
}

// --- enumeration ---------------------------------------------------------------------

// forEachCand enumerates every candidate for n cases. If fixedForms, payload
// cases always use form "bind" (no-payload: bare).
func forEachCand(n int, fixedForms bool, f func(Cand)) {
	for mask := 0; mask < 1<<n; mask++ {
		var arms []Arm
		used := make([]bool, n)
		var rec func()
		rec = func() {
			if len(arms) > 0 {
				for _, def := range []bool{false, true} {
					f(Cand{N: n, Mask: mask, Arms: append([]Arm{}, arms...), Default: def})
				}
			}
			for i := 0; i < n; i++ {
				if used[i] {
					continue
				}
				used[i] = true
				forms := []string{"bare"}
				if mask&(1<<i) != 0 {
					forms = []string{"bind", "ignore", "none"}
					if fixedForms {
						forms = []string{"bind"}
					}
				}
				for _, fm := range forms {
					arms = append(arms, Arm{i, fm})
					rec()
					arms = arms[:len(arms)-1]
				}
				used[i] = false
			}
		}
		rec()
	}
}

func nontrivial(c Cand) bool {
	if len(c.Arms) >= 2 {
		for i := 1; i < len(c.Arms); i++ {
			if c.Arms[i].Case < c.Arms[i-1].Case {
				return true // not in declaration order
			}
		}
	}
	unc := c.uncovered()
	for _, u := range unc {
		if u != c.N-1 {
			return true // a missing case that is not the last declared one
		}
	}
	return false
}

func labelsOf(c Cand) []string {
	l := []string{fmt.Sprintf("n=%d", c.N)}
	if c.mustReject() {
		l = append(l, "expected: reject")
	} else {
		l = append(l, "expected: accept")
	}
	if c.Default {
		l = append(l, "with default")
	}
	if c.Ctx != "" && c.Ctx != "direct" {
		l = append(l, "ctx:"+c.Ctx)
	}
	if c.Decl != "" && c.Decl != "plain" {
		l = append(l, "decl:"+c.Decl)
	}
	for _, a := range c.Arms {
		if a.Case < 0 {
			l = append(l, "an arm names something that is not a case of the union")
			break
		}
	}
	seenCase := map[int]bool{}
	for _, a := range c.Arms {
		if seenCase[a.Case] {
			l = append(l, "the same case listed more than once")
			break
		}
		seenCase[a.Case] = true
	}
	return l
}

// batch of accepted candidates sharing one union declaration: one fc run.
func (b *batch) flush(t *testing.T, e *vt.Env) {
	if len(b.cands) == 0 {
		return
	}
	first := b.cands[0]
	decl, _, _ := first.typeDecl()
	var sb strings.Builder
	sb.WriteString("package main\n\nimport slice\n\n" + decl + "\n" + outerDecl)
	for i, c := range b.cands {
		sb.WriteString(strings.Replace(c.funcSrc(fmt.Sprintf("m%d", i)), "", "", 0))
		sb.WriteString("\n")
	}
	ok := true
	for _, fc := range []string{e.FC, e.FCB} {
		if fc == "" {
			continue
		}
		o, err := runFiles(e, fc, []string{"m.fo"}, []string{sb.String()})
		if err != nil {
			t.Fatalf("harness: %v", err)
		}
		if o.exit != 0 || o.gen["gen_m.go"] == sentinel {
			ok = false
			break
		}
		for i, c := range b.cands {
			cases, hasDefault, defaultPanics, err := switchArms(o.gen["gen_m.go"], fmt.Sprintf("m%d", i))
			var want []string
			for _, a := range c.Arms {
				want = append(want, "U_"+caseName(a.Case))
			}
			if err != nil || strings.Join(cases, ",") != strings.Join(want, ",") || !hasDefault || c.Default == defaultPanics {
				ok = false
			}
		}
	}
	if !ok {
		// decide each candidate alone (the replayable unit)
		for _, c := range b.cands {
			cc := c
			e.Check(t, "match", cc, func() error { return check(cc) })
		}
		// all fine alone but not together: report the batch's first candidate with the whole file
		e.Check(t, "match-batch", map[string]any{"source": sb.String()}, func() error {
			return fmt.Errorf("every match is handled correctly alone, but not in one file:\n%s", pipeline.Clip(sb.String(), 3000))
		})
	}
	b.cands = b.cands[:0]
}

type batch struct {
	cands []Cand
}

func TestMatchExhaustive(t *testing.T) {
	e := vt.Get()
	defer e.Flush()
	if e.FC == "" {
		t.Skip("needs the orchestrator (VERIF_FC)")
	}
	maxFull := 4 // all arm forms enumerated up to this many cases
	fiveMode := "fixed-forms sample"
	if e.Thorough() {
		fiveMode = "all forms"
	}
	idx := 0
	total := 0
	_ = total
	var b batch
	curKey := ""
	handle := func(c Cand) {
		idx++
		// shard by blocks so that accepted candidates of one union share files
		if (idx/64)%e.NShards != e.Shard {
			return
		}
		total++
		key := fmt.Sprintf("%d/%d", c.N, c.Mask)
		if key != curKey || len(b.cands) >= 60 {
			b.flush(t, e)
			curKey = key
		}
		if c.mustReject() {
			e.Check(t, "match", c, func() error { return check(c) })
		} else {
			b.cands = append(b.cands, c)
		}
		e.Record("TestMatchExhaustive", vt.HashJSON(c), nontrivial(c), labelsOf(c), func() any {
			_, contents := c.files()
			return map[string]any{"candidate": c, "source": contents[0], "must_reject": c.mustReject()}
		})
	}
	for n := 1; n <= maxFull; n++ {
		forEachCand(n, false, handle)
	}
	if e.Thorough() {
		forEachCand(5, false, handle)
	} else {
		// quick: n = 5 with the arm form fixed per payload mask, every 7th candidate
		k := 0
		forEachCand(5, true, func(c Cand) {
			k++
			if k%7 == 0 {
				handle(c)
			}
		})
	}
	b.flush(t, e)
	e.Meta("TestMatchExhaustive", map[string]any{"exhaustive": true,
		"domain":           fmt.Sprintf("unions with 1..%d cases x payload mask x every non-empty ordered subset of arms x arm form (bind/ignore/none for payload cases) x with/without default; n=5: %s", maxFull, fiveMode),
		"candidates_total": idx})
}

// --- sampled contexts ------------------------------------------------------------------

var ctxs = []string{"letrhs", "ifbranch", "elsebranch", "outerarm", "outerlastarm", "outerarmdefault", "strarmdefault", "lambda", "localfunc", "letbound", "direct", "earlierarmbinder", "afterbinder", "ctortarget", "unannotatedctor", "genericfn"}
var decls = []string{"plain", "plain", "generic", "andgroup", "otherfile"}

func TestMatchContexts(t *testing.T) {
	e := vt.Get()
	defer e.Flush()
	if e.FC == "" {
		t.Skip("needs the orchestrator (VERIF_FC)")
	}
	rapid.Check(t, func(rt *rapid.T) {
		c := Cand{N: rapid.IntRange(1, 5).Draw(rt, "n")}
		c.Mask = rapid.IntRange(0, 1<<c.N-1).Draw(rt, "mask")
		c.Ctx = rapid.SampledFrom(ctxs).Draw(rt, "ctx")
		c.Decl = rapid.SampledFrom(decls).Draw(rt, "decl")
		perm := rapid.Permutation(seqInts(c.N)).Draw(rt, "order")
		k := rapid.IntRange(1, c.N).Draw(rt, "narms")
		if rapid.Bool().Draw(rt, "allArms") {
			k = c.N
		}
		for _, i := range perm[:k] {
			form := "bare"
			if c.hasPayload(i) {
				form = rapid.SampledFrom([]string{"bind", "ignore", "none"}).Draw(rt, "form")
			}
			c.Arms = append(c.Arms, Arm{i, form})
		}
		c.Default = rapid.IntRange(0, 2).Draw(rt, "default") == 0
		if c.mustReject() && len(c.Arms) > 0 && rapid.IntRange(0, 3).Draw(rt, "duplicateArm") == 0 {
			// the same case listed twice (or three times) covers nothing new: still rejected, and the
			// diagnostic still has to name a case that is really missing
			for k := rapid.IntRange(1, 2).Draw(rt, "nDuplicates"); k > 0; k-- {
				d := c.Arms[rapid.IntRange(0, len(c.Arms)-1).Draw(rt, "dupWhich")]
				if d.Form == "bind" && rapid.Bool().Draw(rt, "dupOtherForm") {
					d.Form = "ignore"
				}
				at := rapid.IntRange(0, len(c.Arms)).Draw(rt, "dupAt")
				c.Arms = append(c.Arms[:at], append([]Arm{d}, c.Arms[at:]...)...)
			}
		}
		if c.mustReject() && rapid.IntRange(0, 7).Draw(rt, "untypedTarget") == 0 {
			// only candidates that must be rejected: whether fc accepts a complete match on a target it cannot
			// type yet is not promised anywhere
			c.Ctx = rapid.SampledFrom([]string{"untypedlambda", "untypedexpr"}).Draw(rt, "untypedCtx")
		}
		if c.mustReject() && c.Ctx != "outerarm" && c.Ctx != "outerlastarm" && c.Ctx != "outerarmdefault" && rapid.IntRange(0, 3).Draw(rt, "foreignArm") == 0 {
			// an arm that names a case of another union, or nothing at all, does not cover the missing case
			fa := Arm{Case: rapid.SampledFrom([]int{-1, -2}).Draw(rt, "foreignCase"), Form: "none"}
			if fa.Case == -2 && rapid.Bool().Draw(rt, "foreignIgnore") {
				fa.Form = "ignore"
			}
			at := rapid.IntRange(0, len(c.Arms)).Draw(rt, "foreignAt")
			c.Arms = append(c.Arms[:at], append([]Arm{fa}, c.Arms[at:]...)...)
		}
		e.Record("TestMatchContexts", vt.HashJSON(c), nontrivial(c), labelsOf(c), func() any {
			_, contents := c.files()
			return map[string]any{"candidate": c, "source": strings.Join(contents, "\n-----\n"), "must_reject": c.mustReject()}
		})
		e.Check(rt, "match", c, func() error { return check(c) })
	})
}

// --- sequences: several matches on the same union in one fc run -------------------------------------
// The exhaustiveness decision of a match must not depend on matches processed
// before it (the parse state lives for the whole run).

// SeqCase: candidates sharing one union declaration, each in its own function, in order.
type SeqCase struct {
	Cands []Cand `json:"cands"`
	Nest  bool   `json:"nest,omitempty"` // the last candidate sits inside an arm of the first one's match
}

func (sc SeqCase) files() string {
	first := sc.Cands[0]
	decl, _, targ := first.typeDecl()
	var sb strings.Builder
	sb.WriteString("package main\n\nimport slice\n\n" + decl + "\n" + outerDecl)
	for i, c := range sc.Cands {
		if sc.Nest && i == len(sc.Cands)-1 && len(sc.Cands) >= 2 {
			// fn(u, v): an exhaustive default-less match on u whose first arm holds the candidate match on v
			full := Cand{N: first.N, Mask: first.Mask, Decl: first.Decl}
			for k := 0; k < first.N; k++ {
				form := "bare"
				if full.hasPayload(k) {
					form = "ignore"
				}
				full.Arms = append(full.Arms, Arm{k, form})
			}
			fmt.Fprintf(&sb, "let m%d (u:%s) (v:%s) =\n  match u with\n", i, targ, targ)
			for k, a := range full.Arms {
				pat := caseName(a.Case)
				if a.Form == "ignore" {
					pat += " _"
				}
				if k == 0 {
					fmt.Fprintf(&sb, "  | %s ->\n%s", pat, c.matchSrc("v", 4))
				} else {
					fmt.Fprintf(&sb, "  | %s -> %d\n", pat, 7000+k)
				}
			}
			sb.WriteString("\n")
			continue
		}
		sb.WriteString(c.funcSrc(fmt.Sprintf("m%d", i)))
		sb.WriteString("\n")
	}
	return sb.String()
}

func checkSeqWith(e *vt.Env, fc string, sc SeqCase) error {
	src := sc.files()
	o, err := runFiles(e, fc, []string{"m.fo"}, []string{src})
	if err != nil {
		return err
	}
	firstBad := -1
	for i, c := range sc.Cands {
		if c.mustReject() {
			firstBad = i
			break
		}
	}
	if firstBad < 0 {
		if o.exit != 0 {
			return fmt.Errorf("every match lists all cases or has a default, yet the file is REJECTED (exit %d):\n%s\nfor\n%s", o.exit, pipeline.Clip(o.out, 500), src)
		}
		if g, ok := o.gen["gen_m.go"]; !ok || g == sentinel {
			return fmt.Errorf("accepted (exit 0) but gen_m.go was not written for\n%s", src)
		}
		return nil
	}
	bad := sc.Cands[firstBad]
	if o.exit == 0 {
		return fmt.Errorf("match number %d (function m%d) has no default and omits %v, yet the file was ACCEPTED (exit 0) - the decision depends on the matches before it:\n%s", firstBad+1, firstBad, caseNames(bad.uncovered()), src)
	}
	unc := map[string]bool{}
	for _, i := range bad.uncovered() {
		unc[caseName(i)] = true
	}
	ms := reKase.FindAllString(o.out, -1)
	if len(ms) == 0 {
		return fmt.Errorf("rejected, but the diagnostic names no uncovered case (uncovered in m%d: %v):\n%s\nfor\n%s", firstBad, caseNames(bad.uncovered()), pipeline.Clip(o.out, 500), src)
	}
	for _, m := range ms {
		if !unc[m] {
			return fmt.Errorf("rejected, but the diagnostic names %s, which match m%d covers (uncovered: %v):\n%s\nfor\n%s", m, firstBad, caseNames(bad.uncovered()), pipeline.Clip(o.out, 500), src)
		}
	}
	if g, ok := o.gen["gen_m.go"]; !ok || g != sentinel {
		return fmt.Errorf("rejected, but gen_m.go was written/removed for\n%s", src)
	}
	return nil
}

func checkSeq(sc SeqCase) error {
	e := vt.Get()
	if err := checkSeqWith(e, e.FC, sc); err != nil {
		return err
	}
	if e.FCB != "" {
		if err := checkSeqWith(e, e.FCB, sc); err != nil {
			return fmt.Errorf("(compiler regenerated from fc/*.fo) %v", err)
		}
	}
	return nil
}

func genCand(rt *rapid.T, n, mask int, decl string, forceAccept bool) Cand {
	c := Cand{N: n, Mask: mask, Decl: decl}
	perm := rapid.Permutation(seqInts(n)).Draw(rt, "order")
	k := n
	if !forceAccept && rapid.IntRange(0, 2).Draw(rt, "dropArms") != 0 && n > 1 {
		k = rapid.IntRange(1, n-1).Draw(rt, "narms")
	}
	for _, i := range perm[:k] {
		form := "bare"
		if c.hasPayload(i) {
			form = rapid.SampledFrom([]string{"bind", "ignore", "none"}).Draw(rt, "form")
		}
		c.Arms = append(c.Arms, Arm{i, form})
	}
	if k < n && rapid.IntRange(0, 2).Draw(rt, "default") == 0 {
		c.Default = true
	}
	c.Ctx = rapid.SampledFrom([]string{"direct", "direct", "letrhs", "ifbranch", "localfunc"}).Draw(rt, "ctx")
	return c
}

func TestMatchSequences(t *testing.T) {
	e := vt.Get()
	defer e.Flush()
	if e.FC == "" {
		t.Skip("needs the orchestrator (VERIF_FC)")
	}
	rapid.Check(t, func(rt *rapid.T) {
		n := rapid.IntRange(2, 5).Draw(rt, "n")
		mask := rapid.IntRange(0, 1<<n-1).Draw(rt, "mask")
		decl := rapid.SampledFrom([]string{"plain", "plain", "generic", "andgroup"}).Draw(rt, "decl")
		k := rapid.IntRange(2, 4).Draw(rt, "nmatches")
		sc := SeqCase{}
		// most sequences start with accepted matches so that a later rejection is the interesting one
		acceptPrefix := rapid.IntRange(0, k-1).Draw(rt, "acceptPrefix")
		for i := 0; i < k; i++ {
			sc.Cands = append(sc.Cands, genCand(rt, n, mask, decl, i < acceptPrefix))
		}
		sc.Nest = rapid.IntRange(0, 3).Draw(rt, "nest") == 0
		labels := []string{fmt.Sprintf("sequence of %d matches on one union", k)}
		firstBad := -1
		for i, c := range sc.Cands {
			if c.mustReject() && firstBad < 0 {
				firstBad = i
			}
		}
		switch {
		case firstBad < 0:
			labels = append(labels, "expected: accept")
		case firstBad == 0:
			labels = append(labels, "expected: reject at the first match")
		default:
			labels = append(labels, "expected: reject after accepted matches on the same union")
		}
		if sc.Nest {
			labels = append(labels, "last match nested in an arm of a match on the same union")
		}
		e.Record("TestMatchSequences", vt.HashJSON(sc), firstBad > 0, labels, func() any {
			return map[string]any{"source": sc.files(), "first_rejecting_match": firstBad}
		})
		e.Check(rt, "match-sequence", sc, func() error { return checkSeq(sc) })
	})
}

func seqInts(n int) []int {
	out := make([]int, n)
	for i := range out {
		out[i] = i
	}
	return out
}

func TestReplay(t *testing.T) {
	e := vt.Get()
	e.RunReplay(t, map[string]func(json.RawMessage) error{
		"match":          vt.Handler(check),
		"match-sequence": vt.Handler(checkSeq),
		"match-batch": func(raw json.RawMessage) error {
			var c struct {
				Source string `json:"source"`
			}
			json.Unmarshal(raw, &c)
			o, err := runFiles(e, e.FC, []string{"m.fo"}, []string{c.Source})
			if err != nil {
				return err
			}
			if o.exit != 0 {
				return fmt.Errorf("batch of accepted matches is rejected: %s", pipeline.Clip(o.out, 500))
			}
			return nil
		},
	})
}
