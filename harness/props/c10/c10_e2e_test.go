package c10

// End-to-end part of C10: programs of the `equality` profile (records with
// lower-case field names, = and <> on composite values built through different
// library paths) are transpiled, compiled and run; the printed booleans must
// equal the reference evaluator's.

import (
	"fmt"
	"os"
	"path/filepath"
	"sort"
	"strings"
	"testing"

	"pgregory.net/rapid"

	"verif/harness/lang"
	"verif/harness/pipeline"
	"verif/harness/vt"
)

type ProgCase struct {
	Src  string `json:"src"`
	Want string `json:"want"`
}

var runner *pipeline.Runner

func checkProgram(c ProgCase) error {
	e := vt.Get()
	if e.FC == "" {
		return fmt.Errorf("needs VERIF_FC")
	}
	if runner == nil {
		runner = pipeline.NewRunner(e.Scratch, e.Repo, e.GoCache)
	}
	res, err := runner.RunProgram(e.FC, []string{filepath.Join(e.Repo, "pkg", "pkg_all.foi")}, []pipeline.SrcFile{{Name: "prog.fo", Content: c.Src}}, true)
	if err != nil {
		return fmt.Errorf("harness: %v", err)
	}
	switch res.Stage {
	case "fc":
		return fmt.Errorf("fc rejects the program (exit %d):\n%s\n--- source\n%s", res.Exit, pipeline.Clip(res.Output, 800), c.Src)
	case "gobuild":
		return fmt.Errorf("the emitted Go does not compile:\n%s\n--- source\n%s", pipeline.Clip(res.Output, 1200), c.Src)
	case "run":
		return fmt.Errorf("the program fails at run time - = / <> must never panic (exit %d):\n%s\n--- stdout\n%s\n--- source\n%s", res.Exit, pipeline.Clip(res.Stderr, 800), pipeline.Clip(res.Output, 600), c.Src)
	}
	if res.Output != c.Want {
		return fmt.Errorf("output differs from structural equality semantics\n--- want\n%s--- got\n%s--- source\n%s", c.Want, res.Output, c.Src)
	}
	return nil
}

var Equality = func() lang.Profile {
	p := lang.Full
	p.Name = "equality"
	p.LowerFields = true
	p.Equality = true
	p.MaxUnits = 5
	return p
}()

func TestEndToEnd(t *testing.T) {
	e := vt.Get()
	defer e.Flush()
	if e.FC == "" {
		t.Skip("needs the orchestrator (VERIF_FC)")
	}
	rapid.Check(t, func(rt *rapid.T) {
		g := lang.NewGen(rt, Equality)
		pr := g.GenProgram()
		src := lang.Print(pr, lang.Canonical{})
		want, err := lang.Run(pr)
		if err != nil {
			os.WriteFile(filepath.Join(e.Scratch, "harness_bug.txt"), []byte(err.Error()+"\n"+src), 0o644)
			rt.Fatalf("harness bug: reference evaluator: %v", err)
		}
		c := ProgCase{Src: src, Want: want}
		var labels []string
		for l := range g.Labels {
			if strings.Contains(l, "equality") || strings.Contains(l, "empty slice") {
				labels = append(labels, "e2e: "+l)
			}
		}
		sort.Strings(labels)
		nt := g.Labels["equality on a composite value"]
		e.Record("TestEndToEnd", vt.Hash(src), nt, labels, func() any { return c })
		e.Check(rt, "equality-program", c, func() error { return checkProgram(c) })
	})
}
