// C10 (in-process part): frt.OpEqual / OpNotEqual are total structural
// equality on first-order values. The Go types below mirror what fc emits for
// Folang records (exported and lower-case field names, generic), unions
// (interface + case structs with a Value field and a String method), tuples
// and slices. A model tree is generated per type, built into a Go value
// through a drawn construction path per slice (nil, empty non-nil, exact,
// spare capacity, sub-slice of a larger array, grown by append), and
// frt.OpEqual is compared with reference equality on the model trees.
package c10

import (
	"encoding/json"
	"fmt"
	"reflect"
	"sort"
	"strconv"
	"strings"
	"testing"
	"unsafe"

	"github.com/karino2/folang/pkg/frt"
	"github.com/karino2/folang/pkg/slice"
	"pgregory.net/rapid"

	"verif/harness/vt"
)

// --- mirrors of emitted declarations ---------------------------------------

type RecU struct {
	A int
	B string
}

type recl struct {
	a int
	b []string
}

type G[T any] struct {
	V  T
	Ws []T
}

type U interface {
	U_Union()
}

func (U_I) U_Union() {}
func (U_S) U_Union() {}
func (U_R) U_Union() {}
func (U_N) U_Union() {}
func (U_M) U_Union() {}

func (v U_I) String() string { return frt.Sprintf1("(I: %v)", v.Value) }
func (v U_S) String() string { return frt.Sprintf1("(S: %v)", v.Value) }
func (v U_R) String() string { return frt.Sprintf1("(R: %v)", v.Value) }
func (v U_N) String() string { return "(N)" }
func (v U_M) String() string { return "(M)" }

type U_I struct {
	Value int
}
type U_S struct {
	Value []string
}
type U_R struct {
	Value recl
}
type U_N struct {
}
type U_M struct {
}

type Opt[T any] interface {
	Opt_Union()
}

func (Opt_Some[T]) Opt_Union() {}
func (Opt_None[T]) Opt_Union() {}

type Opt_Some[T any] struct {
	Value T
}
type Opt_None[T any] struct {
}

type Nest struct {
	R  RecU
	l  recl
	Xs [][]int
	T  frt.Tuple2[int, []string]
	U  U
	O  Opt[[]int]
}

type Tree struct {
	V    int
	Kids []Tree
}

// records / tuples / unions whose only non-basic component is a union: Go calls such a struct
// "comparable" although == panics when the interface holds a slice-carrying case
type RecWithUnion struct {
	N int
	U U
}

type lowerWithUnion struct {
	n string
	u U
}

type W interface {
	W_Union()
}

func (W_Wrap) W_Union() {}
func (W_Pair) W_Union() {}
func (W_None) W_Union() {}

type W_Wrap struct {
	Value U
}
type W_Pair struct {
	Value frt.Tuple2[int, U]
}
type W_None struct {
}

// --- root types -------------------------------------------------------------

type root struct {
	name string
	typ  reflect.Type
	eq   func(a, b any) bool
	ne   func(a, b any) bool
}

func reg[T any](name string) root {
	return root{
		name: name,
		typ:  reflect.TypeOf((*T)(nil)).Elem(),
		eq:   func(a, b any) bool { return frt.OpEqual(a.(T), b.(T)) },
		ne:   func(a, b any) bool { return frt.OpNotEqual(a.(T), b.(T)) },
	}
}

var roots = []root{
	reg[int]("int"), reg[string]("string"), reg[bool]("bool"),
	reg[frt.Tuple2[int, string]]("int*string"),
	reg[frt.Tuple3[int, bool, []int]]("int*bool*[]int"),
	reg[RecU]("RecU"), reg[recl]("recl"),
	reg[G[int]]("G<int>"), reg[G[[]string]]("G<[]string>"),
	reg[Nest]("Nest"), reg[Tree]("Tree"),
	reg[U]("U"), reg[Opt[int]]("Opt<int>"), reg[Opt[recl]]("Opt<recl>"),
	reg[[]int]("[]int"), reg[[]string]("[]string"), reg[[][]int]("[][]int"), reg[[][][]int]("[][][]int"),
	reg[[]RecU]("[]RecU"), reg[[]recl]("[]recl"), reg[[]U]("[]U"),
	reg[[]frt.Tuple2[int, string]]("[](int*string)"),
	reg[[]Opt[[]int]]("[]Opt<[]int>"), reg[[]Nest]("[]Nest"),
	reg[frt.Tuple2[[]int, []int]]("[]int*[]int"), reg[frt.Tuple2[[]U, []U]]("[]U*[]U"),
	reg[RecWithUnion]("RecWithUnion"), reg[lowerWithUnion]("lowerWithUnion"), reg[frt.Tuple2[int, U]]("int*U"),
	reg[frt.Tuple3[U, string, U]]("U*string*U"), reg[W]("W"), reg[Opt[U]]("Opt<U>"), reg[G[U]]("G<U>"), reg[[]RecWithUnion]("[]RecWithUnion"),
}

func rootByName(n string) *root {
	for i := range roots {
		if roots[i].name == n {
			return &roots[i]
		}
	}
	return nil
}

// union interface type -> its case struct types, by case name
var unionCases = map[reflect.Type][]reflect.Type{
	reflect.TypeOf((*U)(nil)).Elem(): {
		reflect.TypeOf(U_I{}), reflect.TypeOf(U_S{}), reflect.TypeOf(U_R{}), reflect.TypeOf(U_N{}), reflect.TypeOf(U_M{}),
	},
	reflect.TypeOf((*Opt[int])(nil)).Elem():   {reflect.TypeOf(Opt_Some[int]{}), reflect.TypeOf(Opt_None[int]{})},
	reflect.TypeOf((*Opt[recl])(nil)).Elem():  {reflect.TypeOf(Opt_Some[recl]{}), reflect.TypeOf(Opt_None[recl]{})},
	reflect.TypeOf((*Opt[[]int])(nil)).Elem(): {reflect.TypeOf(Opt_Some[[]int]{}), reflect.TypeOf(Opt_None[[]int]{})},
	reflect.TypeOf((*Opt[U])(nil)).Elem():     {reflect.TypeOf(Opt_Some[U]{}), reflect.TypeOf(Opt_None[U]{})},
	reflect.TypeOf((*W)(nil)).Elem():          {reflect.TypeOf(W_Wrap{}), reflect.TypeOf(W_Pair{}), reflect.TypeOf(W_None{})},
}

// --- model ---------------------------------------------------------------------

// Val is the model tree. P (construction path of a slice node) is not part of
// the value.
type Val struct {
	K string `json:"k"` // int str bool struct slice union
	I int    `json:"i,omitempty"`
	S string `json:"s,omitempty"`
	B bool   `json:"b,omitempty"`
	C int    `json:"c,omitempty"` // union: index of the case
	E []Val  `json:"e,omitempty"` // struct fields / slice elements / union: the case struct
	P int    `json:"p,omitempty"`
	// A (slice node of b only): build this node by re-slicing the node at the same place of a, so that the
	// two operands share memory: "same" = the very same slice value, "prefix" = without its last element
	// (what slice.PopLast returns), "suffix" = without its first (slice.Tail). Not part of the value.
	A string `json:"a,omitempty"`
}

func refEq(a, b Val) bool {
	if a.K != b.K {
		return false
	}
	switch a.K {
	case "int":
		return a.I == b.I
	case "str":
		return a.S == b.S
	case "bool":
		return a.B == b.B
	case "union":
		if a.C != b.C {
			return false
		}
	}
	if len(a.E) != len(b.E) {
		return false
	}
	for i := range a.E {
		if !refEq(a.E[i], b.E[i]) {
			return false
		}
	}
	return true
}

const nPaths = 6

var strVals = []string{"", "a", "b", "1", "ab"}

func genVal(rt *rapid.T, t reflect.Type, depth int) Val {
	switch t.Kind() {
	case reflect.Int:
		return Val{K: "int", I: rapid.IntRange(0, 2).Draw(rt, "i")}
	case reflect.String:
		return Val{K: "str", S: rapid.SampledFrom(strVals).Draw(rt, "s")}
	case reflect.Bool:
		return Val{K: "bool", B: rapid.Bool().Draw(rt, "b")}
	case reflect.Struct:
		v := Val{K: "struct"}
		for i := 0; i < t.NumField(); i++ {
			v.E = append(v.E, genVal(rt, t.Field(i).Type, depth+1))
		}
		return v
	case reflect.Slice:
		maxN := 3
		if depth >= 3 {
			maxN = 1
		}
		n := rapid.IntRange(0, maxN).Draw(rt, "len")
		v := Val{K: "slice", P: rapid.IntRange(0, nPaths-1).Draw(rt, "path")}
		if depth <= 1 && rapid.IntRange(0, 24).Draw(rt, "longSlice") == 0 {
			// a long slice (around powers of two): a few distinct elements repeated, so that the value stays
			// small to generate while its length crosses any size threshold of the implementation
			n = rapid.SampledFrom([]int{31, 32, 33, 63, 64, 65, 127, 128, 129, 257}).Draw(rt, "longLen")
			k := rapid.IntRange(1, 3).Draw(rt, "longDistinct")
			var pool []Val
			for i := 0; i < k; i++ {
				pool = append(pool, genVal(rt, t.Elem(), depth+2))
			}
			for i := 0; i < n; i++ {
				v.E = append(v.E, pool[i%k])
			}
			return v
		}
		for i := 0; i < n; i++ {
			v.E = append(v.E, genVal(rt, t.Elem(), depth+1))
		}
		return v
	case reflect.Interface:
		cases := unionCases[t]
		c := rapid.IntRange(0, len(cases)-1).Draw(rt, "case")
		return Val{K: "union", C: c, E: []Val{genVal(rt, cases[c], depth+1)}}
	}
	panic("unsupported type " + t.String())
}

// repath returns a copy of v with every slice's construction path redrawn.
func repath(rt *rapid.T, v Val) Val {
	out := v
	if v.K == "slice" {
		out.P = rapid.IntRange(0, nPaths-1).Draw(rt, "path")
	}
	out.E = nil
	for _, e := range v.E {
		out.E = append(out.E, repath(rt, e))
	}
	return out
}

// mutate changes one place of v (a leaf value, a slice length, a union case).
func mutate(rt *rapid.T, t reflect.Type, v Val) Val {
	out := v
	out.E = append([]Val{}, v.E...)
	switch v.K {
	case "int":
		out.I = v.I + 1 + rapid.IntRange(0, 1).Draw(rt, "di")
		return out
	case "str":
		out.S = v.S + rapid.SampledFrom([]string{"x", " "}).Draw(rt, "ds")
		return out
	case "bool":
		out.B = !v.B
		return out
	case "struct":
		if len(v.E) == 0 {
			return out // nothing to change (no-payload case struct)
		}
		i := rapid.IntRange(0, len(v.E)-1).Draw(rt, "field")
		out.E[i] = mutate(rt, t.Field(i).Type, v.E[i])
		return out
	case "slice":
		choice := rapid.IntRange(0, 2).Draw(rt, "sliceMut")
		switch {
		case choice == 0 || len(v.E) == 0: // add an element
			out.E = append(out.E, genVal(rt, t.Elem(), 3))
		case choice == 1: // drop the last
			out.E = out.E[:len(out.E)-1]
		default:
			i := rapid.IntRange(0, len(v.E)-1).Draw(rt, "elem")
			out.E[i] = mutate(rt, t.Elem(), v.E[i])
		}
		return out
	case "union":
		cases := unionCases[t]
		if rapid.Bool().Draw(rt, "otherCase") || cases[v.C].NumField() == 0 {
			c := (v.C + 1 + rapid.IntRange(0, len(cases)-2).Draw(rt, "dc")) % len(cases)
			return Val{K: "union", C: c, E: []Val{genVal(rt, cases[c], 3)}}
		}
		out.E[0] = mutate(rt, cases[v.C], v.E[0])
		return out
	}
	return out
}

// aliased returns a copy of v in which one slice node (chosen at random among those reachable without
// crossing an unexported field) shares memory with the same node of the first operand: the same slice
// value, or that value without its last / first element. ok is false when v has no such node.
func aliased(rt *rapid.T, t reflect.Type, v Val) (Val, bool) {
	type place struct{ path []int }
	var places []place
	var walk func(t reflect.Type, v Val, path []int)
	walk = func(t reflect.Type, v Val, path []int) {
		switch v.K {
		case "struct":
			for i := range v.E {
				if t.Field(i).IsExported() {
					walk(t.Field(i).Type, v.E[i], append(append([]int{}, path...), i))
				}
			}
		case "union":
			walk(unionCases[t][v.C], v.E[0], append(append([]int{}, path...), 0))
		case "slice":
			places = append(places, place{path})
			for i := range v.E {
				walk(t.Elem(), v.E[i], append(append([]int{}, path...), i))
			}
		}
	}
	walk(t, v, nil)
	if len(places) == 0 {
		return v, false
	}
	pl := places[rapid.IntRange(0, len(places)-1).Draw(rt, "aliasPlace")]
	mode := rapid.SampledFrom([]string{"same", "prefix", "prefix", "suffix"}).Draw(rt, "aliasMode")
	var rebuild func(v Val, path []int) Val
	rebuild = func(v Val, path []int) Val {
		out := v
		out.E = append([]Val{}, v.E...)
		if len(path) == 0 {
			switch {
			case mode == "same" || len(out.E) == 0:
				out.A = "same"
			case mode == "prefix":
				out.A, out.E = "prefix", out.E[:len(out.E)-1]
			default:
				out.A, out.E = "suffix", out.E[1:]
			}
			return out
		}
		out.E[path[0]] = rebuild(v.E[path[0]], path[1:])
		return out
	}
	return rebuild(v, pl.path), true
}

// siblingOf: a slice node marked "sib:<j>" is built from the memory of sibling j (same parent): the same
// start, one element shorter - what slice.PopLast returns.
func siblingOf(v Val) (int, bool) {
	if v.K != "slice" || !strings.HasPrefix(v.A, "sib:") {
		return 0, false
	}
	j, err := strconv.Atoi(v.A[4:])
	return j, err == nil
}

// readable returns f in a form whose Slice result may be stored (unexported fields are read-only for reflect).
func readable(f reflect.Value) reflect.Value {
	if f.CanInterface() || !f.CanAddr() {
		return f
	}
	return reflect.NewAt(f.Type(), unsafe.Pointer(f.UnsafeAddr())).Elem()
}

// innerShared returns a copy of v in which one slice is a prefix view of a sibling slice (both held by the
// same value), and a second model that differs from it only in the last element of that sibling.
func innerShared(rt *rapid.T, t reflect.Type, v Val) (Val, Val, bool) {
	type place struct {
		path []int
		i, j int
	}
	var places []place
	var walk func(t reflect.Type, v Val, path []int)
	walk = func(t reflect.Type, v Val, path []int) {
		switch v.K {
		case "struct":
			for i := range v.E {
				for j := range v.E {
					if i != j && v.E[j].K == "slice" && len(v.E[j].E) >= 1 && t.Field(i).Type == t.Field(j).Type {
						places = append(places, place{append([]int{}, path...), i, j})
					}
				}
				walk(t.Field(i).Type, v.E[i], append(append([]int{}, path...), i))
			}
		case "union":
			walk(unionCases[t][v.C], v.E[0], append(append([]int{}, path...), 0))
		case "slice":
			if t.Elem().Kind() == reflect.Slice {
				for i := range v.E {
					for j := range v.E {
						if i != j && len(v.E[j].E) >= 1 {
							places = append(places, place{append([]int{}, path...), i, j})
						}
					}
				}
			}
			for i := range v.E {
				walk(t.Elem(), v.E[i], append(append([]int{}, path...), i))
			}
		}
	}
	walk(t, v, nil)
	if len(places) == 0 {
		return v, v, false
	}
	pl := places[rapid.IntRange(0, len(places)-1).Draw(rt, "innerPlace")]
	var edit func(v Val, path []int, f func(parent *Val)) Val
	edit = func(v Val, path []int, f func(parent *Val)) Val {
		out := v
		out.E = append([]Val{}, v.E...)
		if len(path) == 0 {
			f(&out)
			return out
		}
		out.E[path[0]] = edit(v.E[path[0]], path[1:], f)
		return out
	}
	x := edit(v, pl.path, func(p *Val) {
		full := p.E[pl.j]
		view := full
		view.E = append([]Val{}, full.E[:len(full.E)-1]...)
		view.A = fmt.Sprintf("sib:%d", pl.j)
		p.E[pl.i] = view
	})
	// the other operand: same contents built independently, except for the last element of the sibling
	var strip func(v Val) Val
	strip = func(v Val) Val {
		out := v
		out.A = ""
		out.E = nil
		for _, e := range v.E {
			out.E = append(out.E, strip(e))
		}
		return out
	}
	// (half of the time the other operand has the same inner sharing - xs and PopLast xs on one side, ys and
	// PopLast ys on the other -, half of the time it is built from independent memory)
	y := x
	if rapid.Bool().Draw(rt, "otherSideIndependent") {
		y = strip(x)
	}
	if rapid.IntRange(0, 3).Draw(rt, "innerSameValue") != 0 {
		var elemT func(t reflect.Type, v Val, path []int) reflect.Type
		elemT = func(t reflect.Type, v Val, path []int) reflect.Type {
			if len(path) == 0 {
				return t
			}
			switch v.K {
			case "struct":
				return elemT(t.Field(path[0]).Type, v.E[path[0]], path[1:])
			case "union":
				return elemT(unionCases[t][v.C], v.E[0], path[1:])
			default:
				return elemT(t.Elem(), v.E[path[0]], path[1:])
			}
		}
		pt := elemT(t, v, pl.path)
		var st reflect.Type
		if pt.Kind() == reflect.Struct {
			st = pt.Field(pl.j).Type
		} else {
			st = pt.Elem()
		}
		y = edit(y, pl.path, func(p *Val) {
			full := p.E[pl.j]
			full.E = append([]Val{}, full.E...)
			full.E[len(full.E)-1] = mutate(rt, st.Elem(), full.E[len(full.E)-1])
			p.E[pl.j] = full
		})
	}
	return x, y, true
}

func setField(f reflect.Value, x reflect.Value) {
	if !f.CanSet() {
		f = reflect.NewAt(f.Type(), unsafe.Pointer(f.UnsafeAddr())).Elem()
	}
	f.Set(x)
}

// build makes the Go value of type t described by v, deterministically.
func build(t reflect.Type, v Val) reflect.Value { return buildPeer(t, v, reflect.Value{}) }

// buildPeer is build with the already built first operand at hand: peer is the part of it at the place
// being built (invalid when there is none), used by slice nodes that ask to share its memory.
func buildPeer(t reflect.Type, v Val, peer reflect.Value) reflect.Value {
	if peer.IsValid() && (!peer.CanInterface() || peer.Type() != t) {
		peer = reflect.Value{}
	}
	switch t.Kind() {
	case reflect.Int:
		return reflect.ValueOf(v.I)
	case reflect.String:
		return reflect.ValueOf(v.S)
	case reflect.Bool:
		return reflect.ValueOf(v.B)
	case reflect.Struct:
		out := reflect.New(t).Elem()
		for pass := 0; pass < 2; pass++ {
			for i := 0; i < t.NumField(); i++ {
				if j, ok := siblingOf(v.E[i]); ok {
					// second pass: this slice is the already built sibling field j without its last element
					if pass == 1 && j < t.NumField() && t.Field(j).Type == t.Field(i).Type && out.Field(j).Len() == len(v.E[i].E)+1 {
						setField(out.Field(i), readable(out.Field(j)).Slice(0, len(v.E[i].E)))
					} else if pass == 1 {
						setField(out.Field(i), buildPeer(t.Field(i).Type, v.E[i], reflect.Value{}))
					}
					continue
				}
				if pass == 1 {
					continue
				}
				var p reflect.Value
				if peer.IsValid() {
					p = peer.Field(i)
				}
				setField(out.Field(i), buildPeer(t.Field(i).Type, v.E[i], p))
			}
		}
		return out
	case reflect.Interface:
		ct := unionCases[t][v.C]
		out := reflect.New(t).Elem()
		var p reflect.Value
		if peer.IsValid() && !peer.IsNil() {
			p = peer.Elem()
		}
		out.Set(buildPeer(ct, v.E[0], p))
		return out
	case reflect.Slice:
		n := len(v.E)
		if v.A != "" && peer.IsValid() {
			switch {
			case v.A == "same" && peer.Len() == n:
				return peer
			case v.A == "prefix" && peer.Len() == n+1:
				return peer.Slice(0, n)
			case v.A == "suffix" && peer.Len() == n+1:
				return peer.Slice(1, n+1)
			}
		}
		elems := make([]reflect.Value, n)
		for pass := 0; pass < 2; pass++ {
			for i := range elems {
				if j, ok := siblingOf(v.E[i]); ok {
					if pass == 1 && j < n && elems[j].IsValid() && elems[j].Kind() == reflect.Slice && elems[j].Len() == len(v.E[i].E)+1 {
						elems[i] = elems[j].Slice(0, len(v.E[i].E))
					} else if pass == 1 {
						elems[i] = buildPeer(t.Elem(), v.E[i], reflect.Value{})
					}
					continue
				}
				if pass == 1 {
					continue
				}
				var p reflect.Value
				if peer.IsValid() && i < peer.Len() {
					p = peer.Index(i)
				}
				elems[i] = buildPeer(t.Elem(), v.E[i], p)
			}
		}
		filler := reflect.Zero(t.Elem())
		if n > 0 {
			filler = elems[0]
		}
		switch v.P {
		case 0: // exact literal
			s := reflect.MakeSlice(t, n, n)
			for i, e := range elems {
				s.Index(i).Set(e)
			}
			return s
		case 1: // nil when empty (var res []T; nothing appended: Filter/Take 0/Skip all)
			if n == 0 {
				return reflect.Zero(t)
			}
			s := reflect.Zero(t)
			for _, e := range elems { // grown by append from nil, like Map/Filter do
				s = reflect.Append(s, e)
			}
			return s
		case 2: // spare capacity whose hidden tail holds other data (slice.New / []T{} when empty)
			s := reflect.MakeSlice(t, n+3, n+3)
			for i, e := range elems {
				s.Index(i).Set(e)
			}
			for i := n; i < n+3; i++ {
				s.Index(i).Set(filler)
			}
			return s.Slice3(0, n, n+3)
		case 3: // sub-slice in the middle of a larger array (Tail / PopLast / s[1:])
			s := reflect.MakeSlice(t, n+2, n+2)
			s.Index(0).Set(filler)
			s.Index(n + 1).Set(filler)
			for i, e := range elems {
				s.Index(i + 1).Set(e)
			}
			return s.Slice(1, n+1)
		case 4: // empty non-nil with zero capacity / exact
			s := reflect.MakeSlice(t, n, n)
			for i, e := range elems {
				s.Index(i).Set(e)
			}
			return s
		default: // a suffix cut down to nothing: s[len(s):] of a non-empty slice, or exact
			if n == 0 {
				s := reflect.MakeSlice(t, 2, 2)
				return s.Slice(2, 2)
			}
			s := reflect.MakeSlice(t, n, n+1)
			for i, e := range elems {
				s.Index(i).Set(e)
			}
			return s
		}
	}
	panic("unsupported type " + t.String())
}

// --- the check ------------------------------------------------------------------

type Case struct {
	Root string `json:"root"`
	X    Val    `json:"x"`
	Y    Val    `json:"y"`
	Z    *Val   `json:"z,omitempty"`
}

func check(c Case) error {
	r := rootByName(c.Root)
	if r == nil {
		return fmt.Errorf("unknown root type %q", c.Root)
	}
	xv := build(r.typ, c.X)
	x := xv.Interface()
	y := buildPeer(r.typ, c.Y, xv).Interface()
	x2 := build(r.typ, c.X).Interface()
	want := refEq(c.X, c.Y)
	show := func(v any) string { return fmt.Sprintf("%#v", v) }
	if g := r.eq(x, y); g != want {
		return fmt.Errorf("%s: (a = b) is %v, structural equality gives %v\n a = %s\n b = %s", c.Root, g, want, show(x), show(y))
	}
	if g := r.eq(y, x); g != want {
		return fmt.Errorf("%s: (b = a) is %v but (a = b) is %v (not symmetric)\n a = %s\n b = %s", c.Root, g, want, show(x), show(y))
	}
	if g := r.ne(x, y); g != !want {
		return fmt.Errorf("%s: (a <> b) is %v while (a = b) is %v\n a = %s\n b = %s", c.Root, g, want, show(x), show(y))
	}
	if !r.eq(x, x) || !r.eq(x, x2) || !r.eq(y, y) {
		return fmt.Errorf("%s: a = a is false (not reflexive)\n a = %s", c.Root, show(x))
	}
	if c.Z != nil {
		z := build(r.typ, *c.Z).Interface()
		xy, yz, xz := r.eq(x, y), r.eq(y, z), r.eq(x, z)
		if xy && yz && !xz {
			return fmt.Errorf("%s: a = b and b = c but not a = c (not transitive)\n a = %s\n b = %s\n c = %s", c.Root, show(x), show(y), show(z))
		}
		if wantYZ := refEq(c.Y, *c.Z); yz != wantYZ {
			return fmt.Errorf("%s: (b = c) is %v, structural equality gives %v\n b = %s\n c = %s", c.Root, yz, wantYZ, show(y), show(z))
		}
		if wantXZ := refEq(c.X, *c.Z); xz != wantXZ {
			return fmt.Errorf("%s: (a = c) is %v, structural equality gives %v\n a = %s\n c = %s", c.Root, xz, wantXZ, show(x), show(z))
		}
	}
	return nil
}

// features of a model/type pair, for labels and the non-triviality rule
func features(t reflect.Type, v Val, f map[string]bool) {
	switch t.Kind() {
	case reflect.Struct:
		for i := 0; i < t.NumField(); i++ {
			if !t.Field(i).IsExported() {
				f["lower-case-field record"] = true
			}
			features(t.Field(i).Type, v.E[i], f)
		}
	case reflect.Slice:
		f["slice"] = true
		if len(v.E) == 0 {
			f[fmt.Sprintf("empty slice via path %d", v.P)] = true
		}
		for _, e := range v.E {
			if t.Elem().Kind() == reflect.Interface {
				f["union in slice"] = true
			}
			features(t.Elem(), e, f)
		}
	case reflect.Interface:
		f["union"] = true
		features(unionCases[t][v.C], v.E[0], f)
	}
}

func hasEmptyPair(a, b Val) bool {
	if a.K == "slice" && b.K == "slice" && len(a.E) == 0 && len(b.E) == 0 {
		nilA := a.P == 1
		nilB := b.P == 1
		if nilA != nilB {
			return true
		}
	}
	for i := range a.E {
		if i < len(b.E) && hasEmptyPair(a.E[i], b.E[i]) {
			return true
		}
	}
	return false
}

func TestOpEqual(t *testing.T) {
	e := vt.Get()
	defer e.Flush()
	rapid.Check(t, func(rt *rapid.T) {
		r := roots[rapid.IntRange(0, len(roots)-1).Draw(rt, "root")]
		c := Case{Root: r.name}
		c.X = genVal(rt, r.typ, 0)
		kind := rapid.SampledFrom([]string{"copy", "copy", "mutant", "mutant", "independent", "triple", "shared", "shared", "inner-shared", "inner-shared"}).Draw(rt, "pairKind")
		switch kind {
		case "inner-shared":
			// a holds a slice and, next to it, a view of the same memory that is one element shorter
			// (xs and slice.PopLast xs in one value); b has the same contents built independently,
			// usually with another last element
			x, y, ok := innerShared(rt, r.typ, c.X)
			if !ok {
				kind = "copy"
				c.Y = repath(rt, c.X)
			} else {
				c.X, c.Y = x, repath(rt, y)
			}
		case "shared":
			// b shares memory with a: one of its slices is a's slice itself, or a re-slice of it
			y, ok := aliased(rt, r.typ, c.X)
			if !ok {
				kind = "copy"
				y = repath(rt, c.X)
			}
			c.Y = y
		case "copy":
			c.Y = repath(rt, c.X)
		case "mutant":
			c.Y = mutate(rt, r.typ, repath(rt, c.X))
		case "independent":
			c.Y = genVal(rt, r.typ, 0)
		case "triple":
			c.Y = repath(rt, c.X)
			z := repath(rt, c.Y)
			if rapid.Bool().Draw(rt, "mutZ") {
				z = mutate(rt, r.typ, z)
			}
			c.Z = &z
		}
		f := map[string]bool{}
		features(r.typ, c.X, f)
		features(r.typ, c.Y, f)
		labels := []string{"pair:" + kind, "root:" + r.name}
		if hasEmptyPair(c.X, c.Y) {
			labels = append(labels, "nil-vs-empty pair")
		}
		nt := f["slice"] || f["lower-case-field record"]
		for _, k := range []string{"lower-case-field record", "union in slice", "union", "slice"} {
			if f[k] {
				labels = append(labels, k)
			}
		}
		sort.Strings(labels)
		e.Record("TestOpEqual", vt.HashJSON(c), nt, labels, func() any { return c })
		e.Check(rt, "opequal", c, func() error { return check(c) })
	})
}

// --- real library paths ---------------------------------------------------------
// The same contents produced by different pkg/slice calls must be equal.

type PathCase struct {
	Xs []int `json:"xs"`
	A  int   `json:"a"`
	B  int   `json:"b"`
}

var producers = []struct {
	name string
	f    func(xs []int) []int
}{
	{"literal", func(xs []int) []int { return append([]int{}, xs...) }},
	{"New+PushLast", func(xs []int) []int {
		s := slice.New[int]()
		for _, x := range xs {
			s = slice.PushLast(x, s)
		}
		return s
	}},
	{"Filter(all)", func(xs []int) []int { return slice.Filter(func(int) bool { return true }, xs) }},
	{"Filter(from larger)", func(xs []int) []int {
		big := append(append([]int{}, xs...), -1, -1)
		return slice.Filter(func(x int) bool { return x >= 0 }, big)
	}},
	{"Take", func(xs []int) []int { return slice.Take(len(xs), append(append([]int{}, xs...), 7, 8)) }},
	{"Skip", func(xs []int) []int { return slice.Skip(2, append([]int{7, 8}, xs...)) }},
	{"Tail", func(xs []int) []int { return slice.Tail(append([]int{7}, xs...)) }},
	{"PopLast", func(xs []int) []int { return slice.PopLast(append(append([]int{}, xs...), 9)) }},
	{"Map id", func(xs []int) []int { return slice.Map(func(x int) int { return x }, xs) }},
	{"Append", func(xs []int) []int { return slice.Append(xs[:len(xs)/2], xs[len(xs)/2:]) }},
	{"Distinct-of-distinct", func(xs []int) []int { return xs }},
	{"nil var", func(xs []int) []int {
		if len(xs) == 0 {
			var r []int
			return r
		}
		return xs
	}},
	{"Sort(sorted)", func(xs []int) []int { return xs }},
}

func checkPaths(c PathCase) error {
	a := producers[c.A%len(producers)]
	b := producers[c.B%len(producers)]
	xs := c.Xs
	for _, x := range xs {
		if x < 0 {
			return nil
		}
	}
	va, vb := a.f(xs), b.f(xs)
	if !frt.OpEqual(va, vb) || frt.OpNotEqual(va, vb) {
		return fmt.Errorf("the contents %v produced by %s (%#v) and by %s (%#v) are not equal under =", xs, a.name, va, b.name, vb)
	}
	// also nested: as a record field and inside a tuple
	ga, gb := G[int]{V: 1, Ws: va}, G[int]{V: 1, Ws: vb}
	if !frt.OpEqual(ga, gb) {
		return fmt.Errorf("records holding %v produced by %s and by %s are not equal under =", xs, a.name, b.name)
	}
	la, lb := recl{a: 1, b: slice.Map(func(i int) string { return fmt.Sprint(i) }, va)}, recl{a: 1, b: slice.Map(func(i int) string { return fmt.Sprint(i) }, vb)}
	if !frt.OpEqual(la, lb) {
		return fmt.Errorf("lower-case-field records holding %v produced by %s and by %s are not equal under =", xs, a.name, b.name)
	}
	return nil
}

func TestLibraryPaths(t *testing.T) {
	e := vt.Get()
	defer e.Flush()
	rapid.Check(t, func(rt *rapid.T) {
		c := PathCase{A: rapid.IntRange(0, len(producers)-1).Draw(rt, "a"), B: rapid.IntRange(0, len(producers)-1).Draw(rt, "b")}
		n := rapid.SampledFrom([]int{0, 0, 1, 2, 3, 5}).Draw(rt, "n")
		for i := 0; i < n; i++ {
			c.Xs = append(c.Xs, rapid.IntRange(0, 3).Draw(rt, "x"))
		}
		labels := []string{"paths:" + producers[c.A].name + " vs " + producers[c.B].name}
		if n == 0 {
			labels = append(labels, "empty contents")
		}
		e.Record("TestLibraryPaths", vt.HashJSON(c), true, labels, func() any {
			return map[string]any{"contents": c.Xs, "left": producers[c.A].name, "right": producers[c.B].name}
		})
		e.Check(rt, "paths", c, func() error { return checkPaths(c) })
	})
}

func TestReplay(t *testing.T) {
	e := vt.Get()
	e.RunReplay(t, map[string]func(json.RawMessage) error{
		"opequal":          vt.Handler(check),
		"paths":            vt.Handler(checkPaths),
		"equality-program": vt.Handler(checkProgram),
	})
}
