// C11: string, raw-string and interpolated literals denote exactly their text.
package c11

import (
	"encoding/json"
	"fmt"
	"path/filepath"
	"sort"
	"strconv"
	"strings"
	"testing"
	"unicode/utf8"

	"pgregory.net/rapid"

	"verif/harness/pipeline"
	"verif/harness/vt"
)

// Part of a literal: literal text (its intended meaning) or a hole.
type Part struct {
	Text string `json:"text,omitempty"`
	Hole string `json:"hole,omitempty"` // variable name
}

type Lit struct {
	Form  string `json:"form"` // plain | raw | interp | rawinterp
	Parts []Part `json:"parts"`
	// Pat (plain / raw without holes and without a line break): the literal is also written as the pattern
	// of a string match that is applied to the literal's own value; what is printed is the matched value,
	// or a marker when the pattern does not match the text it is spelled like
	Pat bool `json:"pat,omitempty"`
}

// Case is a batch of literals printed by one program.
type Case struct {
	Lits []Lit `json:"lits"`
}

// the variables holes may refer to, with their Folang definition and display form
var holeVars = []struct{ name, def, show string }{
	{"hi", `42`, "42"},
	{"hneg", `0 - 7`, "-7"},
	{"hs", `"s%d{x}"`, "s%d{x}"},
	{"he", `""`, ""},
	{"hb", `true`, "true"},
	{"ht", `(1, "a")`, "{1 a}"},
	{"hl", `[1; 2]`, "[1 2]"},
	{"hls", `["x"; "y z"]`, "[x y z]"},
	{"hr", `{HA=1; HB="x"}`, "{1 x}"},
	{"hu", `HI 3`, "(HI: 3)"},
	{"hn", `HN`, "(HN)"},
}

func holeShow(name string) string {
	for _, h := range holeVars {
		if h.name == name {
			return h.show
		}
	}
	return "?"
}

// intended meaning of a literal
func (l Lit) meaning() string {
	var sb strings.Builder
	for _, p := range l.Parts {
		if p.Hole != "" {
			sb.WriteString(holeShow(p.Hole))
		} else {
			sb.WriteString(p.Text)
		}
	}
	return sb.String()
}

// denotable: can the form write this text at all (documented limits)?
func denotable(form, text string) bool {
	switch form {
	case "raw":
		return !strings.Contains(text, "`")
	case "rawinterp":
		return !strings.ContainsAny(text, "`{}")
	}
	return true
}

func escapePlain(s string, braces bool) string {
	var sb strings.Builder
	for i := 0; i < len(s); i++ {
		switch c := s[i]; c {
		case '\n':
			sb.WriteString(`\n`)
		case '\t':
			sb.WriteString(`\t`)
		case '\\':
			sb.WriteString(`\\`)
		case '"':
			sb.WriteString(`\"`)
		case '{', '}':
			if braces {
				sb.WriteByte('\\')
			}
			sb.WriteByte(c)
		default:
			sb.WriteByte(c)
		}
	}
	return sb.String()
}

// src renders the literal in its documented source syntax.
func (l Lit) src() string {
	var sb strings.Builder
	for _, p := range l.Parts {
		switch {
		case p.Hole != "":
			sb.WriteString("{" + p.Hole + "}")
		case l.Form == "plain":
			sb.WriteString(escapePlain(p.Text, false))
		case l.Form == "interp":
			sb.WriteString(escapePlain(p.Text, true))
		default:
			sb.WriteString(p.Text)
		}
	}
	switch l.Form {
	case "plain":
		return `"` + sb.String() + `"`
	case "raw":
		return "`" + sb.String() + "`"
	case "interp":
		return `$"` + sb.String() + `"`
	}
	return "$`" + sb.String() + "`"
}

func program(lits []Lit) string {
	var sb strings.Builder
	sb.WriteString("package main\n\nimport frt\n\ntype HRec = {HA: int; HB: string}\n\ntype HUni =\n  | HI of int\n  | HN\n\n")
	for i, l := range lits {
		if l.Pat {
			fmt.Fprintf(&sb, "let pat%d (s:string) =\n  match s with\n  | %s -> s\n  | _ -> \"<<the pattern does not match its own text>>\"\n\n", i, l.src())
		}
	}
	sb.WriteString("let main () =\n")
	for _, h := range holeVars {
		fmt.Fprintf(&sb, "  let %s = %s\n", h.name, h.def)
	}
	// every variable is used at least once
	sb.WriteString("  frt.Printf1 \"%v\\n\" (hi, hneg)\n  frt.Printf1 \"%v\\n\" (hs, he)\n  frt.Printf1 \"%v\\n\" (hb, ht)\n  frt.Printf1 \"%v\\n\" (hl, hls)\n  frt.Printf1 \"%v\\n\" (hr, hu)\n  frt.Printf1 \"%v\\n\" hn\n  frt.Println \"BEGIN\"\n")
	for i, l := range lits {
		if l.Pat {
			fmt.Fprintf(&sb, "  frt.Printf1 \"%%q\\n\" (pat%d %s)\n", i, l.src())
			continue
		}
		fmt.Fprintf(&sb, "  frt.Printf1 \"%%q\\n\" %s\n", l.src())
	}
	sb.WriteString("  frt.Println \"END\"\n")
	return sb.String()
}

var runner *pipeline.Runner

func run(e *vt.Env, fc string, lits []Lit) (lines []string, failure string, err error) {
	if runner == nil {
		runner = pipeline.NewRunner(e.Scratch, e.Repo, e.GoCache)
	}
	src := program(lits)
	res, rerr := runner.RunProgram(fc, []string{filepath.Join(e.Repo, "pkg", "pkg_all.foi")}, []pipeline.SrcFile{{Name: "prog.fo", Content: src}}, true)
	if rerr != nil {
		return nil, "", fmt.Errorf("harness: %v", rerr)
	}
	switch res.Stage {
	case "fc":
		return nil, fmt.Sprintf("fc rejects the literal (exit %d): %s", res.Exit, pipeline.Clip(res.Output, 500)), nil
	case "gobuild":
		return nil, "the emitted Go does not compile: " + pipeline.Clip(res.Output, 600), nil
	case "run":
		return nil, fmt.Sprintf("the program fails at run time (exit %d): %s", res.Exit, pipeline.Clip(res.Stderr, 400)), nil
	}
	out := res.Output
	i := strings.Index(out, "BEGIN\n")
	j := strings.LastIndex(out, "END\n")
	if i < 0 || j < 0 {
		return nil, "program output lacks the BEGIN/END markers: " + pipeline.Clip(out, 300), nil
	}
	body := out[i+len("BEGIN\n") : j]
	if body == "" {
		return nil, "", nil
	}
	return strings.Split(strings.TrimSuffix(body, "\n"), "\n"), "", nil
}

func describe(l Lit) string {
	if l.Pat {
		return fmt.Sprintf("form %s used as a match pattern and applied to its own value, source %s, intended value %q", l.Form, l.src(), l.meaning())
	}
	return fmt.Sprintf("form %s, source %s, intended value %q", l.Form, l.src(), l.meaning())
}

// checkBatch decides a batch; on any failure each literal is decided alone.
func checkBatch(e *vt.Env, fc string, lits []Lit, single bool) error {
	lines, failure, err := run(e, fc, lits)
	if err != nil {
		return err
	}
	if failure == "" && len(lines) == len(lits) {
		allOK := true
		for i, l := range lits {
			got, uerr := strconv.Unquote(lines[i])
			if uerr != nil || got != l.meaning() {
				allOK = false
				if single || len(lits) == 1 {
					return fmt.Errorf("literal does not denote its text: %s; the program printed %s", describe(l), lines[i])
				}
			}
		}
		if allOK {
			return nil
		}
	}
	if single || len(lits) == 1 {
		if failure == "" {
			failure = fmt.Sprintf("the program printed %d lines for %d literals", len(lines), len(lits))
		}
		return fmt.Errorf("%s; %s", failure, describe(lits[0]))
	}
	for _, l := range lits {
		if err := checkBatch(e, fc, []Lit{l}, true); err != nil {
			return err
		}
	}
	return fmt.Errorf("every literal is fine alone but the batch is not: %s", failure)
}

func check(c Case) error {
	e := vt.Get()
	if e.FC == "" {
		return fmt.Errorf("needs VERIF_FC")
	}
	if err := checkBatch(e, e.FC, c.Lits, false); err != nil {
		return err
	}
	if e.FCB != "" {
		if err := checkBatch(e, e.FCB, c.Lits, false); err != nil {
			return fmt.Errorf("(compiler regenerated from fc/*.fo) %v", err)
		}
	}
	return nil
}

var forms = []string{"plain", "raw", "interp", "rawinterp"}

func alphabet() []string {
	var a []string
	for c := 0x20; c <= 0x7e; c++ {
		a = append(a, string(rune(c)))
	}
	a = append(a, "\n", "\t", "é", "ß", "☃", "日", "😀", " ")
	return a
}

var specials = "\\\"{}%$`\n"

func special(text string) bool {
	for _, r := range text {
		if strings.ContainsRune(specials, r) || r > 0x7f {
			return true
		}
	}
	return false
}

// failOne narrows a failing batch to the single failing literal so that the saved case is small.
func failOne(t vt.TB, e *vt.Env, lits []Lit) {
	for _, l := range lits {
		one := Case{Lits: []Lit{l}}
		e.Check(t, "literals", one, func() error { return check(one) })
	}
	whole := Case{Lits: lits}
	e.Check(t, "literals", whole, func() error { return check(whole) })
}

func TestSingleCharacters(t *testing.T) {
	e := vt.Get()
	defer e.Flush()
	if e.FC == "" {
		t.Skip("needs the orchestrator (VERIF_FC)")
	}
	neighbours := []string{"\\", "\"", "{", "}", "%"}
	var all []Lit
	for _, f := range forms {
		for _, c := range alphabet() {
			texts := []string{c}
			for _, n := range neighbours {
				texts = append(texts, n+c, c+n)
			}
			if e.Thorough() {
				for _, n := range neighbours {
					for _, m := range neighbours {
						texts = append(texts, n+c+m)
					}
				}
				texts = append(texts, c+c, c+"x"+c)
			}
			for _, tx := range texts {
				if denotable(f, tx) {
					all = append(all, Lit{Form: f, Parts: []Part{{Text: tx}}})
					if (f == "plain" || f == "raw") && !strings.Contains(tx, "\n") {
						all = append(all, Lit{Form: f, Parts: []Part{{Text: tx}}, Pat: true})
					}
				}
			}
			// next to a hole
			if f == "interp" || f == "rawinterp" {
				if denotable(f, c) {
					all = append(all, Lit{Form: f, Parts: []Part{{Text: c}, {Hole: "hs"}, {Text: c}}})
				}
			}
		}
	}
	const per = 60
	nb := 0
	for start := 0; start < len(all); start += per {
		nb++
		if nb%e.NShards != e.Shard {
			continue
		}
		batch := all[start:min(start+per, len(all))]
		c := Case{Lits: batch}
		if err := check(c); err != nil {
			failOne(t, e, batch)
		}
		for _, l := range batch {
			e.Record("TestSingleCharacters", vt.Hash(l.Form, l.src(), fmt.Sprint(l.Pat)), special(l.meaning()), []string{"form:" + l.Form}, func() any {
				return map[string]any{"form": l.Form, "source": l.src(), "value": l.meaning()}
			})
		}
	}
	e.Meta("TestSingleCharacters", map[string]any{"exhaustive": true, "domain": "every character of printable ASCII, newline, tab and 6 multi-byte runes, alone and next to \\ \" { } % (both sides), in each of the 4 literal forms (where the form can denote it)", "literals": len(all)})
}

func genText(t *rapid.T, form string) string {
	a := alphabet()
	hot := []string{"\\", "\"", "{", "}", "%", "$", "`", "\n", "%s", "%d", "\\n", "{}", "\\\\", "%%", " "}
	n := rapid.IntRange(0, 12).Draw(t, "textLen")
	var sb strings.Builder
	for i := 0; i < n; i++ {
		var p string
		if rapid.IntRange(0, 2).Draw(t, "hot") == 0 {
			p = rapid.SampledFrom(hot).Draw(t, "hotPiece")
		} else {
			p = rapid.SampledFrom(a).Draw(t, "char")
		}
		if denotable(form, sb.String()+p) {
			sb.WriteString(p)
		}
	}
	if rapid.IntRange(0, 39).Draw(t, "longText") == 0 {
		// a long body around a buffer size, with the drawn text at its end: scanners and formatters that
		// work in chunks meet their boundary inside the literal
		k := rapid.SampledFrom([]int{255, 256, 1023, 1024, 4095, 4096, 4097, 65536}).Draw(t, "longLen")
		unit := rapid.SampledFrom([]string{"a", "ab%", "é", "x\\"}).Draw(t, "longUnit")
		long := strings.Repeat(unit, k/len(unit)+1)[:k]
		for len(long) > 0 && !denotable(form, long+sb.String()) {
			long = long[:len(long)-1]
		}
		if utf8.ValidString(long) && denotable(form, long+sb.String()) {
			return long + sb.String()
		}
	}
	return sb.String()
}

func TestRandomLiterals(t *testing.T) {
	e := vt.Get()
	defer e.Flush()
	if e.FC == "" {
		t.Skip("needs the orchestrator (VERIF_FC)")
	}
	rapid.Check(t, func(rt *rapid.T) {
		n := rapid.IntRange(1, 24).Draw(rt, "nlits")
		var lits []Lit
		for i := 0; i < n; i++ {
			f := rapid.SampledFrom(forms).Draw(rt, "form")
			l := Lit{Form: f}
			nparts := 1
			if f == "interp" || f == "rawinterp" {
				nparts = 1 + rapid.IntRange(0, 4).Draw(rt, "nholes")
			}
			for k := 0; k < nparts; k++ {
				if tx := genText(rt, f); tx != "" {
					l.Parts = append(l.Parts, Part{Text: tx})
				}
				if k < nparts-1 {
					l.Parts = append(l.Parts, Part{Hole: holeVars[rapid.IntRange(0, len(holeVars)-1).Draw(rt, "holeVar")].name})
				}
			}
			if len(l.Parts) == 0 {
				l.Parts = []Part{{Text: ""}}
			}
			if (f == "plain" || f == "raw") && !strings.Contains(l.meaning(), "\n") && len(l.meaning()) < 300 && rapid.IntRange(0, 2).Draw(rt, "asPattern") == 0 {
				l.Pat = true
			}
			lits = append(lits, l)
		}
		c := Case{Lits: lits}
		for _, l := range lits {
			labels := []string{"form:" + l.Form}
			if l.Pat {
				labels = append(labels, "used as a match pattern")
			}
			holes := 0
			for _, p := range l.Parts {
				if p.Hole != "" {
					holes++
				}
			}
			if holes > 0 {
				labels = append(labels, fmt.Sprintf("holes:%d", min(holes, 3)))
			}
			e.Record("TestRandomLiterals", vt.Hash(l.Form, l.src()), special(l.meaning()), labels, func() any {
				return map[string]any{"form": l.Form, "source": l.src(), "value": l.meaning()}
			})
		}
		e.Check(rt, "literals", c, func() error { return check(c) })
	})
}

func TestReplay(t *testing.T) {
	e := vt.Get()
	e.RunReplay(t, map[string]func(json.RawMessage) error{
		"literals": vt.Handler(check),
	})
}

var _ = sort.Strings
