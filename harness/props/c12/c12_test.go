// C12: no function of pkg/slice changes a slice value that already exists.
// A rapid state machine applies library calls to a growing pool of live
// values; after every call every pool value must still equal the deep snapshot
// taken when it was produced, and the value just returned must equal the list
// model's result.
package c12

import (
	"cmp"
	"encoding/json"
	"fmt"
	"strconv"
	"testing"

	"github.com/karino2/folang/pkg/frt"
	"github.com/karino2/folang/pkg/slice"
	"pgregory.net/rapid"

	lm "verif/harness/listmodel"
	"verif/harness/vt"
)

type Op struct {
	Name string `json:"op"`
	Src  int    `json:"src"`
	Src2 int    `json:"src2,omitempty"`
	N    int    `json:"n,omitempty"`
	E    int    `json:"e,omitempty"`
	A    int    `json:"a,omitempty"`
	M    int    `json:"m,omitempty"`
	R    int    `json:"r,omitempty"`
	Lit  []int  `json:"lit,omitempty"`
	Cap  int    `json:"cap,omitempty"`
}

type Case struct {
	Elem string `json:"elem"`
	Ops  []Op   `json:"ops"`
}

func mod(x, m int) int {
	if m <= 0 {
		m = 1
	}
	r := x % m
	if r < 0 {
		r += m
	}
	return r
}

type fam[T any] struct {
	num func(T) int
	mk  func(int) T
}

var intFam = fam[int]{num: func(x int) int { return x }, mk: func(n int) int { return n }}
var strFam = fam[string]{
	num: func(s string) int {
		n, _ := strconv.Atoi(s[1:])
		return n
	},
	mk: func(n int) string { return "s" + strconv.Itoa(n) },
}

type entry[T any] struct {
	val       []T
	snap      []T
	prov      string
	shortened bool // result of PopLast / Tail / Take / Skip
	exts      int  // how many times it was the source of PushLast / Append / PushHead
}

type machine[T cmp.Ordered] struct {
	f    fam[T]
	pool []*entry[T]
	// statistics for the non-triviality rule
	spareExtTwice  bool
	shortenedExt   bool
	steps          int
	labels         map[string]bool
	lastResultDesc string
}

func newMachine[T cmp.Ordered](f fam[T]) *machine[T] {
	return &machine[T]{f: f, labels: map[string]bool{}}
}

func clone[T any](s []T) []T {
	out := make([]T, len(s))
	copy(out, s)
	return out
}

func (m *machine[T]) add(v []T, prov string, shortened bool) {
	if len(m.pool) >= 48 {
		// keep the pool bounded: drop the oldest entry that is not among the first four
		m.pool = append(m.pool[:4], m.pool[5:]...)
	}
	m.pool = append(m.pool, &entry[T]{val: v, snap: clone(v), prov: prov, shortened: shortened})
}

func (m *machine[T]) verifyAll(after string) error {
	for i, e := range m.pool {
		if !lm.EqSlice(e.val, e.snap) {
			return fmt.Errorf("after %s: slice value #%d (produced by %s) changed: it was %v when produced and is %v now", after, i, e.prov, e.snap, e.val)
		}
	}
	return nil
}

func (m *machine[T]) expect(name string, got, want []T) error {
	if !lm.EqSlice(got, want) {
		return fmt.Errorf("%s returned %v, the list model gives %v", name, got, want)
	}
	return nil
}

// apply executes one operation. Operations whose precondition does not hold
// on the current pool are no-ops (this keeps shrunk histories replayable).
func (m *machine[T]) apply(op Op) error {
	m.steps++
	f := m.f
	if op.Name == "lit" {
		vals := make([]T, 0, len(op.Lit)+op.Cap)
		for _, x := range op.Lit {
			vals = append(vals, f.mk(x))
		}
		// fill the spare capacity with sentinels
		full := vals[:cap(vals)]
		for i := len(vals); i < len(full); i++ {
			full[i] = f.mk(-999)
		}
		m.add(vals, fmt.Sprintf("literal len=%d cap=%d", len(vals), cap(vals)), false)
		return m.verifyAll("lit")
	}
	if op.Name == "New" {
		m.add(slice.New[T](), "slice.New", false)
		return m.verifyAll("New")
	}
	if len(m.pool) == 0 {
		return nil
	}
	si := mod(op.Src, len(m.pool))
	src := m.pool[si]
	s := src.val
	pred := func(x T) bool { return mod(f.num(x), op.M) == op.R }
	mapF := func(x T) T { return f.mk(op.A*f.num(x) + op.E) }
	key := func(x T) int { return mod(op.A*f.num(x), op.M) }
	desc := fmt.Sprintf("%s(#%d)", op.Name, si)
	spare := cap(s) > len(s)
	var res []T
	var want []T
	shortened := false
	ext := false
	switch op.Name {
	case "PushLast":
		e := f.mk(op.E)
		res, want = slice.PushLast(e, s), lm.MPushLast(e, src.snap)
		ext = true
	case "PushHead":
		e := f.mk(op.E)
		res, want = slice.PushHead(e, s), lm.MPushHead(e, src.snap)
		ext = true
	case "PopLast":
		if len(s) == 0 {
			return nil
		}
		res, want = slice.PopLast(s), lm.MPopLast(src.snap)
		shortened = true
	case "Tail":
		if len(s) == 0 {
			return nil
		}
		res, want = slice.Tail(s), lm.MTail(src.snap)
		shortened = true
	case "Take":
		n := mod(op.N, len(s)+1)
		res, want = slice.Take(n, s), lm.MTake(n, src.snap)
		shortened = true
	case "Skip":
		n := mod(op.N, len(s)+1)
		res, want = slice.Skip(n, s), lm.MSkip(n, src.snap)
		shortened = true
	case "Append":
		o := m.pool[mod(op.Src2, len(m.pool))]
		if len(s)+len(o.val) > 64 {
			return nil
		}
		res, want = slice.Append(s, o.val), lm.MAppend(src.snap, o.snap)
		ext = true
		desc = fmt.Sprintf("Append(#%d, #%d)", si, mod(op.Src2, len(m.pool)))
	case "Concat":
		o := m.pool[mod(op.Src2, len(m.pool))]
		if 2*len(s)+len(o.val) > 64 {
			return nil
		}
		res, want = slice.Concat([][]T{s, o.val, s}), lm.MConcat([][]T{src.snap, o.snap, src.snap})
	case "Collect":
		if len(s) > 24 {
			return nil
		}
		cf := func(x T) []T {
			k := mod(f.num(x)+op.E, 3)
			out := []T{}
			for j := 0; j < k; j++ {
				out = append(out, f.mk(f.num(x)+j))
			}
			return out
		}
		res, want = slice.Collect(cf, s), lm.MCollect(cf, src.snap)
	case "CollectSelf":
		// the mapped function returns existing pool values: their storage must not be reused
		o := m.pool[mod(op.Src2, len(m.pool))]
		if len(s)*len(o.val) > 64 {
			return nil
		}
		cf := func(x T) []T { return o.val }
		res, want = slice.Collect(cf, s), lm.MCollect(func(x T) []T { return o.snap }, src.snap)
	case "Map":
		res, want = slice.Map(mapF, s), lm.MMap(mapF, src.snap)
	case "Mapi":
		mf := func(i int, x T) T { return f.mk(f.num(x) + 100*i) }
		res, want = slice.Mapi(mf, s), lm.MMapi(mf, src.snap)
	case "Filter":
		res, want = slice.Filter(pred, s), lm.MFilter(pred, src.snap)
	case "Sort":
		res = slice.Sort(s)
		if !lm.IsPermutation(res, src.snap) {
			return fmt.Errorf("%s returned %v, not a permutation of %v", desc, res, src.snap)
		}
		for i := 1; i < len(res); i++ {
			if res[i-1] > res[i] {
				return fmt.Errorf("%s returned %v, not ascending", desc, res)
			}
		}
		want = res
	case "SortBy":
		res = slice.SortBy(key, s)
		if !lm.IsPermutation(res, src.snap) {
			return fmt.Errorf("%s returned %v, not a permutation of %v", desc, res, src.snap)
		}
		for i := 1; i < len(res); i++ {
			if key(res[i-1]) > key(res[i]) {
				return fmt.Errorf("%s returned %v, not ascending by key", desc, res)
			}
		}
		want = res
	case "Distinct":
		res, want = slice.Distinct(s), lm.MDistinct(src.snap)
	case "Zip":
		o := m.pool[mod(op.Src2, len(m.pool))]
		k := min(len(s), len(o.val))
		x, y := slice.Take(k, s), slice.Take(k, o.val)
		m.add(x, desc+":Take-left", true)
		m.add(y, desc+":Take-right", true)
		z := slice.Zip(x, y)
		if len(z) != k {
			return fmt.Errorf("Zip returned %d pairs for inputs of length %d", len(z), k)
		}
		res = slice.Map(func(p frt.Tuple2[T, T]) T { return p.E0 }, z)
		want = lm.MTake(k, src.snap)
		second := slice.Map(func(p frt.Tuple2[T, T]) T { return p.E1 }, z)
		if err := m.expect(desc+" second components", second, lm.MTake(k, o.snap)); err != nil {
			return err
		}
	case "observe":
		// functions that return no slice must not write either
		slice.Length(s)
		slice.IsEmpty(s)
		slice.Forall(pred, s)
		slice.Forany(pred, s)
		slice.TryFind(pred, s)
		slice.Iter(func(T) {}, s)
		slice.Fold(func(acc int, x T) int { return acc + f.num(x) }, 0, s)
		if len(s) > 0 {
			slice.Head(s)
			slice.Last(s)
			slice.Item(mod(op.N, len(s)), s)
		}
		return m.verifyAll(desc)
	default:
		return fmt.Errorf("unknown op %q", op.Name)
	}
	if err := m.expect(desc, res, want); err != nil {
		return err
	}
	if ext {
		src.exts++
		if spare && src.exts >= 2 {
			m.spareExtTwice = true
			m.labels["spare-capacity value extended twice"] = true
		}
		if src.shortened {
			m.shortenedExt = true
			m.labels["shortened value extended"] = true
		}
	}
	if spare {
		m.labels["source with spare capacity"] = true
	}
	m.add(res, desc, shortened)
	return m.verifyAll(desc)
}

func (m *machine[T]) nontrivial() bool { return m.spareExtTwice || m.shortenedExt }

var opNames = []string{"PushLast", "PushLast", "PushLast", "PushHead", "PopLast", "PopLast", "Tail", "Take", "Take", "Skip",
	"Append", "Append", "Concat", "Collect", "CollectSelf", "Map", "Mapi", "Filter", "Sort", "SortBy", "Distinct", "Zip", "observe", "New"}

func genOp(t *rapid.T, name string, poolLen int) Op {
	op := Op{Name: name}
	if name == "lit" {
		n := rapid.IntRange(0, 6).Draw(t, "n")
		long := rapid.IntRange(0, 11).Draw(t, "longLit") == 0
		if long {
			// a long literal (8..130 elements, mostly distinct with some repeats): crosses size thresholds of
			// fast paths (Distinct, Sort, Concat buffers ...)
			n = rapid.SampledFrom([]int{8, 9, 10, 16, 17, 31, 33, 64, 65, 130}).Draw(t, "longN")
		}
		op.Lit = make([]int, n)
		for i := range op.Lit {
			if long {
				op.Lit[i] = (i * 7) % (n - 2)
				continue
			}
			op.Lit[i] = rapid.IntRange(-2, 5).Draw(t, "x")
		}
		op.Cap = rapid.SampledFrom([]int{0, 0, 1, 2, 5}).Draw(t, "cap")
		return op
	}
	// bias: half of the time take one of the three newest values or value 0,
	// so that the same source is used repeatedly
	pick := func(label string) int {
		if poolLen <= 1 {
			return 0
		}
		switch rapid.IntRange(0, 3).Draw(t, label+"Bias") {
		case 0:
			return poolLen - 1
		case 1:
			return max(0, poolLen-1-rapid.IntRange(0, 2).Draw(t, label+"Recent"))
		default:
			return rapid.IntRange(0, poolLen-1).Draw(t, label)
		}
	}
	op.Src = pick("src")
	op.Src2 = pick("src2")
	op.N = rapid.IntRange(0, 12).Draw(t, "n")
	if rapid.IntRange(0, 9).Draw(t, "bigN") == 0 {
		op.N = rapid.SampledFrom([]int{15, 16, 17, 32, 63, 64, 65, 129}).Draw(t, "nBig")
	}
	op.E = rapid.IntRange(-2, 5).Draw(t, "e")
	op.A = rapid.IntRange(-2, 3).Draw(t, "a")
	op.M = rapid.IntRange(1, 4).Draw(t, "m")
	op.R = rapid.IntRange(0, op.M-1).Draw(t, "r")
	return op
}

func runCase[T cmp.Ordered](c Case, f fam[T]) (*machine[T], error) {
	m := newMachine(f)
	for _, op := range c.Ops {
		if err := m.apply(op); err != nil {
			return m, err
		}
	}
	return m, nil
}

func check(c Case) error {
	var err error
	if c.Elem == "string" {
		_, err = runCase(c, strFam)
	} else {
		_, err = runCase(c, intFam)
	}
	return err
}

func historyProp[T cmp.Ordered](e *vt.Env, rt *rapid.T, elem string, f fam[T]) {
	c := Case{Elem: elem}
	m := newMachine(f)
	step := func(op Op) {
		c.Ops = append(c.Ops, op)
		cc := c
		e.Check(rt, "slice-history", cc, func() error { return m.apply(op) })
	}
	// every history starts from one literal with spare capacity and one without
	step(Op{Name: "lit", Lit: []int{1, 2, 3}, Cap: rapid.IntRange(0, 4).Draw(rt, "cap0")})
	actions := map[string]func(*rapid.T){
		"lit": func(t *rapid.T) { step(genOp(t, "lit", len(m.pool))) },
		"op": func(t *rapid.T) {
			name := rapid.SampledFrom(opNames).Draw(t, "name")
			step(genOp(t, name, len(m.pool)))
		},
	}
	rt.Repeat(actions)
	labels := []string{"elem:" + elem}
	for l := range m.labels {
		labels = append(labels, l)
	}
	seen := map[string]bool{}
	for _, op := range c.Ops {
		if !seen[op.Name] {
			seen[op.Name] = true
			labels = append(labels, "op:"+op.Name)
		}
	}
	e.Record("TestSlicePurity", vt.HashJSON(c), m.nontrivial(), labels, func() any { return c })
}

func TestSlicePurity(t *testing.T) {
	e := vt.Get()
	defer e.Flush()
	rapid.Check(t, func(rt *rapid.T) {
		if rapid.Bool().Draw(rt, "strings") {
			historyProp(e, rt, "string", strFam)
		} else {
			historyProp(e, rt, "int", intFam)
		}
	})
}

func TestReplay(t *testing.T) {
	e := vt.Get()
	e.RunReplay(t, map[string]func(json.RawMessage) error{
		"slice-history": vt.Handler(check),
	})
}
