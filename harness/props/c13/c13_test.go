package c13

import (
	"cmp"
	"encoding/json"
	"fmt"
	"math"
	"strconv"
	"testing"

	"github.com/karino2/folang/pkg/frt"
	"github.com/karino2/folang/pkg/slice"
	"pgregory.net/rapid"

	lm "verif/harness/listmodel"
	"verif/harness/vt"
)

// Case is the concrete, replayable input of one evaluation.
type Case struct {
	Fn   string     `json:"fn"`
	Elem string     `json:"elem"` // "int" | "string"
	I1   []int      `json:"i1,omitempty"`
	I2   []int      `json:"i2,omitempty"`
	II   [][]int    `json:"ii,omitempty"`
	S1   []string   `json:"s1,omitempty"`
	S2   []string   `json:"s2,omitempty"`
	SS   [][]string `json:"ss,omitempty"`
	EI   int        `json:"ei,omitempty"`
	ES   string     `json:"es,omitempty"`
	N    int        `json:"n"`
	A    int        `json:"a"`
	B    int        `json:"b"`
	M    int        `json:"m"`
	R    int        `json:"r"`
	Neg  bool       `json:"neg,omitempty"`
	Cap  int        `json:"cap,omitempty"` // spare capacity given to the input slices
}

var fnNames = []string{
	"Length", "Len", "New", "Item", "IsEmpty", "IsNotEmpty", "Last", "Head", "Tail", "Take",
	"PopLast", "Skip", "Map", "MapU", "Mapi", "Iter", "Filter", "Sort", "SortBy", "Zip",
	"Forall", "Forany", "PushLast", "PushHead", "Collect", "Concat", "Append", "Distinct",
	"TryFind", "Fold", "FoldStr",
}

func mod(x, m int) int {
	if m <= 0 {
		m = 1
	}
	r := x % m
	if r < 0 {
		r += m
	}
	return r
}

// fam maps an element type onto integers and back so that one closed-form
// family of function arguments serves both element types.
type fam[T any] struct {
	num  func(T) int
	mk   func(int) T
	show func(T) string
}

var intFam = fam[int]{num: func(x int) int { return x }, mk: func(n int) int { return n }, show: strconv.Itoa}
var strFam = fam[string]{
	num: func(s string) int {
		n := len(s) * 7
		for i := 0; i < len(s); i++ {
			n += int(s[i]) * (i + 1)
		}
		return n
	},
	mk:   func(n int) string { return "s" + strconv.Itoa(n) },
	show: func(s string) string { return strconv.Quote(s) },
}

// withCap copies s into a fresh backing array with extra spare capacity whose
// hidden tail holds sentinel values.
func withCap[T any](s []T, extra int, sentinel T) []T {
	if s == nil && extra == 0 {
		return nil
	}
	out := make([]T, len(s), len(s)+extra)
	copy(out, s)
	full := out[:cap(out)]
	for i := len(s); i < len(full); i++ {
		full[i] = sentinel
	}
	return out
}

func diff[T any](what string, got, want T) error {
	return fmt.Errorf("%s: got %v, specification gives %v", what, got, want)
}

func run[T cmp.Ordered](c Case, s1, s2 []T, ss [][]T, e T, f fam[T], sentinel T) error {
	s1 = withCap(s1, c.Cap, sentinel)
	s2 = withCap(s2, c.Cap, sentinel)
	mapF := func(x T) T { return f.mk(c.A*f.num(x) + c.B) }
	mapU := func(x T) string { return "<" + strconv.Itoa(c.A*f.num(x)+c.B) + ">" }
	pred := func(x T) bool { return (mod(f.num(x), c.M) == c.R) != c.Neg }
	key := func(x T) int { return mod(c.A*f.num(x), c.M) }
	collectF := func(x T) []T {
		k := mod(f.num(x)+c.B, 3)
		var out []T
		for j := 0; j < k; j++ {
			out = append(out, f.mk(c.A*f.num(x)+j))
		}
		return out
	}
	mapiF := func(i int, x T) T { return f.mk(c.A*f.num(x) + (c.B*2+1)*i) }
	folderT := func(acc T, x T) T { return f.mk(f.num(acc)*31 + f.num(x)) }
	folderS := func(acc string, x T) string { return acc + "," + f.show(x) }

	switch c.Fn {
	case "Length":
		if g, w := slice.Length(s1), lm.MLength(s1); g != w {
			return diff("Length", g, w)
		}
	case "Len":
		if g, w := slice.Len(s1), lm.MLength(s1); g != w {
			return diff("Len", g, w)
		}
	case "New":
		if g := slice.New[T](); len(g) != 0 {
			return diff("New", len(g), 0)
		}
	case "IsEmpty":
		if g, w := slice.IsEmpty(s1), lm.MLength(s1) == 0; g != w {
			return diff("IsEmpty", g, w)
		}
	case "IsNotEmpty":
		if g, w := slice.IsNotEmpty(s1), lm.MLength(s1) != 0; g != w {
			return diff("IsNotEmpty", g, w)
		}
	case "Item":
		if g, w := slice.Item(c.N, s1), lm.MItem(c.N, s1); g != w {
			return diff("Item", g, w)
		}
	case "Last":
		if g, w := slice.Last(s1), lm.MLast(s1); g != w {
			return diff("Last", g, w)
		}
	case "Head":
		if g, w := slice.Head(s1), lm.MHead(s1); g != w {
			return diff("Head", g, w)
		}
	case "Tail":
		if g, w := slice.Tail(s1), lm.MTail(s1); !lm.EqSlice(g, w) {
			return diff("Tail", g, w)
		}
	case "Take":
		if g, w := slice.Take(c.N, s1), lm.MTake(c.N, s1); !lm.EqSlice(g, w) {
			return diff("Take", g, w)
		}
	case "PopLast":
		if g, w := slice.PopLast(s1), lm.MPopLast(s1); !lm.EqSlice(g, w) {
			return diff("PopLast", g, w)
		}
	case "Skip":
		if g, w := slice.Skip(c.N, s1), lm.MSkip(c.N, s1); !lm.EqSlice(g, w) {
			return diff("Skip", g, w)
		}
	case "Map":
		if g, w := slice.Map(mapF, s1), lm.MMap(mapF, s1); !lm.EqSlice(g, w) {
			return diff("Map", g, w)
		}
	case "MapU":
		if g, w := slice.Map(mapU, s1), lm.MMap(mapU, s1); !lm.EqSlice(g, w) {
			return diff("Map (T->string)", g, w)
		}
	case "Mapi":
		if g, w := slice.Mapi(mapiF, s1), lm.MMapi(mapiF, s1); !lm.EqSlice(g, w) {
			return diff("Mapi", g, w)
		}
	case "Iter":
		var calls []T
		slice.Iter(func(x T) { calls = append(calls, x) }, s1)
		if !lm.EqSlice(calls, s1) {
			return diff("Iter (sequence of calls)", calls, s1)
		}
	case "Filter":
		if g, w := slice.Filter(pred, s1), lm.MFilter(pred, s1); !lm.EqSlice(g, w) {
			return diff("Filter", g, w)
		}
	case "Sort":
		g := slice.Sort(s1)
		for i := 1; i < len(g); i++ {
			if g[i-1] > g[i] {
				return fmt.Errorf("Sort: result %v is not ascending at %d", g, i)
			}
		}
		if !lm.IsPermutation(g, s1) {
			return fmt.Errorf("Sort: result %v is not a permutation of the input %v", g, s1)
		}
	case "SortBy":
		g := slice.SortBy(key, s1)
		for i := 1; i < len(g); i++ {
			if key(g[i-1]) > key(g[i]) {
				return fmt.Errorf("SortBy: result %v is not ascending by key at %d", g, i)
			}
		}
		if !lm.IsPermutation(g, s1) {
			return fmt.Errorf("SortBy: result %v is not a permutation of the input %v", g, s1)
		}
	case "Zip":
		g := slice.Zip(s1, s2)
		w := lm.MZip(s1, s2)
		if len(g) != len(w) {
			return diff("Zip length", len(g), len(w))
		}
		for i := range g {
			if g[i].E0 != w[i].A || g[i].E1 != w[i].B {
				return fmt.Errorf("Zip: got %v, specification gives %v", g, w)
			}
		}
	case "Forall":
		var calls []T
		g := slice.Forall(func(x T) bool { calls = append(calls, x); return pred(x) }, s1)
		idx, n := lm.MScan(pred, s1, false)
		if g != (idx < 0) {
			return diff("Forall", g, idx < 0)
		}
		if !lm.EqSlice(calls, s1[:n]) {
			return diff("Forall (elements tested, in order)", calls, s1[:n])
		}
	case "Forany":
		var calls []T
		g := slice.Forany(func(x T) bool { calls = append(calls, x); return pred(x) }, s1)
		idx, n := lm.MScan(pred, s1, true)
		if g != (idx >= 0) {
			return diff("Forany", g, idx >= 0)
		}
		if !lm.EqSlice(calls, s1[:n]) {
			return diff("Forany (elements tested, in order)", calls, s1[:n])
		}
	case "TryFind":
		var calls []T
		g := slice.TryFind(func(x T) bool { calls = append(calls, x); return pred(x) }, s1)
		idx, n := lm.MScan(pred, s1, true)
		gv, gok := frt.Destr2(g)
		if gok != (idx >= 0) {
			return diff("TryFind found", gok, idx >= 0)
		}
		if idx >= 0 && gv != s1[idx] {
			return diff("TryFind value", gv, s1[idx])
		}
		if !lm.EqSlice(calls, s1[:n]) {
			return diff("TryFind (elements tested, in order)", calls, s1[:n])
		}
	case "PushLast":
		if g, w := slice.PushLast(e, s1), lm.MPushLast(e, s1); !lm.EqSlice(g, w) {
			return diff("PushLast", g, w)
		}
	case "PushHead":
		if g, w := slice.PushHead(e, s1), lm.MPushHead(e, s1); !lm.EqSlice(g, w) {
			return diff("PushHead", g, w)
		}
	case "Collect":
		if g, w := slice.Collect(collectF, s1), lm.MCollect(collectF, s1); !lm.EqSlice(g, w) {
			return diff("Collect", g, w)
		}
	case "Concat":
		if g, w := slice.Concat(ss), lm.MConcat(ss); !lm.EqSlice(g, w) {
			return diff("Concat", g, w)
		}
	case "Append":
		if g, w := slice.Append(s1, s2), lm.MAppend(s1, s2); !lm.EqSlice(g, w) {
			return diff("Append", g, w)
		}
	case "Distinct":
		if g, w := slice.Distinct(s1), lm.MDistinct(s1); !lm.EqSlice(g, w) {
			return diff("Distinct", g, w)
		}
	case "Fold":
		if g, w := slice.Fold(folderT, e, s1), lm.MFold(folderT, e, s1); g != w {
			return diff("Fold", g, w)
		}
	case "FoldStr":
		if g, w := slice.Fold(folderS, "^", s1), lm.MFold(folderS, "^", s1); g != w {
			return diff("Fold (string state)", g, w)
		}
	default:
		return fmt.Errorf("unknown function %q", c.Fn)
	}
	return nil
}

func check(c Case) error {
	if c.Elem == "string" {
		return run(c, c.S1, c.S2, c.SS, c.ES, strFam, "SENTINEL")
	}
	return run(c, c.I1, c.I2, c.II, c.EI, intFam, -777)
}

// generators ---------------------------------------------------------------

var strAlphabet = []string{"", "a", "b", "ab", "ba", "abc", "é", "zz", " ", "a b"}

func genLen(t *rapid.T, label string) int {
	switch rapid.IntRange(0, 9).Draw(t, label+"Shape") {
	case 0:
		return 0
	case 1:
		return 1
	case 2:
		return 2
	case 3:
		return rapid.IntRange(0, 40).Draw(t, label+"Long")
	case 4:
		// around powers of two up to 1025: crosses any size threshold an implementation may switch at
		if rapid.IntRange(0, 3).Draw(t, label+"Pow2P") == 0 {
			b := 1 << rapid.IntRange(3, 10).Draw(t, label+"Pow2")
			return b + rapid.IntRange(-1, 1).Draw(t, label+"Pow2Off")
		}
		return rapid.IntRange(0, 12).Draw(t, label)
	default:
		return rapid.IntRange(0, 12).Draw(t, label)
	}
}

func genInts(t *rapid.T, label string, n int) []int {
	shape := rapid.IntRange(0, 6).Draw(t, label+"Kind")
	out := make([]int, n)
	elem := rapid.IntRange(-3, 6)
	if shape == 5 {
		elem = rapid.IntRange(-1000000, 1000000)
	}
	if shape == 6 {
		// the ends of the int range: differences and sums of two elements overflow
		elem = rapid.SampledFrom([]int{math.MinInt64, math.MinInt64 + 1, -(1 << 62), -2, -1, 0, 1, 2, 1 << 62, math.MaxInt64 - 1, math.MaxInt64})
	}
	for i := range out {
		out[i] = elem.Draw(t, label)
	}
	switch shape {
	case 1: // sorted
		for i := 1; i < n; i++ {
			for j := i; j > 0 && out[j-1] > out[j]; j-- {
				out[j-1], out[j] = out[j], out[j-1]
			}
		}
	case 2: // reversed
		for i := 1; i < n; i++ {
			for j := i; j > 0 && out[j-1] < out[j]; j-- {
				out[j-1], out[j] = out[j], out[j-1]
			}
		}
	case 3: // constant
		for i := range out {
			out[i] = out[0]
		}
	}
	return out
}

func genStrs(t *rapid.T, label string, n int) []string {
	idx := genInts(t, label, n)
	out := make([]string, n)
	for i, v := range idx {
		out[i] = strAlphabet[mod(v, len(strAlphabet))]
	}
	return out
}

func genCase(t *rapid.T) Case {
	c := Case{}
	c.Fn = rapid.SampledFrom(fnNames).Draw(t, "fn")
	c.Elem = rapid.SampledFrom([]string{"int", "string"}).Draw(t, "elem")
	n := genLen(t, "len")
	switch c.Fn {
	case "Head", "Tail", "Last", "PopLast", "Item":
		if n == 0 {
			n = 1 + rapid.IntRange(0, 3).Draw(t, "nonempty")
		}
	}
	n2 := n
	if c.Fn == "Append" {
		n2 = genLen(t, "len2")
	}
	if c.Elem == "int" {
		c.I1 = genInts(t, "s1", n)
		c.EI = rapid.IntRange(-3, 6).Draw(t, "e")
		if c.Fn == "Zip" || c.Fn == "Append" {
			c.I2 = genInts(t, "s2", n2)
		}
		if c.Fn == "Concat" {
			k := rapid.IntRange(0, 4).Draw(t, "nss")
			c.II = make([][]int, k)
			for i := range c.II {
				c.II[i] = genInts(t, "ss", genLen(t, "sslen"))
			}
		}
	} else {
		c.S1 = genStrs(t, "s1", n)
		c.ES = rapid.SampledFrom(strAlphabet).Draw(t, "e")
		if c.Fn == "Zip" || c.Fn == "Append" {
			c.S2 = genStrs(t, "s2", n2)
		}
		if c.Fn == "Concat" {
			k := rapid.IntRange(0, 4).Draw(t, "nss")
			c.SS = make([][]string, k)
			for i := range c.SS {
				c.SS[i] = genStrs(t, "ss", genLen(t, "sslen"))
			}
		}
	}
	switch c.Fn {
	case "Item":
		c.N = rapid.SampledFrom([]int{0, n - 1, rapid.IntRange(0, n-1).Draw(t, "idx")}).Draw(t, "n")
	case "Take", "Skip":
		c.N = rapid.SampledFrom([]int{0, n, rapid.IntRange(0, n).Draw(t, "cnt")}).Draw(t, "n")
	}
	c.A = rapid.IntRange(-3, 3).Draw(t, "A")
	c.B = rapid.IntRange(-5, 5).Draw(t, "B")
	c.M = rapid.IntRange(1, 5).Draw(t, "M")
	c.R = rapid.IntRange(0, c.M-1).Draw(t, "R")
	c.Neg = rapid.Bool().Draw(t, "neg")
	c.Cap = rapid.SampledFrom([]int{0, 0, 1, 3}).Draw(t, "cap")
	return c
}

func classify(c Case) (nt bool, labels []string) {
	n := len(c.I1) + len(c.S1)
	labels = []string{"fn:" + c.Fn, "elem:" + c.Elem}
	boundary := false
	switch c.Fn {
	case "Item":
		boundary = c.N == 0 || c.N == n-1
	case "Take", "Skip":
		boundary = c.N == 0 || c.N == n
	}
	if boundary {
		labels = append(labels, "boundary-arg")
	}
	if n == 0 {
		labels = append(labels, "empty-input")
	}
	if c.Cap > 0 {
		labels = append(labels, "spare-capacity")
	}
	return n >= 2 || boundary, labels
}

func TestSliceSpec(t *testing.T) {
	e := vt.Get()
	defer e.Flush()
	rapid.Check(t, func(rt *rapid.T) {
		c := genCase(rt)
		nt, labels := classify(c)
		e.Record("TestSliceSpec", vt.HashJSON(c), nt, labels, func() any { return c })
		e.Check(rt, "slice-spec", c, func() error { return check(c) })
	})
}

func TestReplay(t *testing.T) {
	e := vt.Get()
	e.RunReplay(t, map[string]func(json.RawMessage) error{
		"slice-spec": vt.Handler(check),
	})
}
