// Independent list model for pkg/slice, written from the F# List module
// documentation (the specification pkg/slice cites), with plain index loops.
// Nothing here imports or imitates pkg/slice.
package c13

func mLength[T any](s []T) int {
	n := 0
	for range s {
		n++
	}
	return n
}

func mItem[T any](i int, s []T) T { return s[i] }
func mHead[T any](s []T) T        { return s[0] }
func mLast[T any](s []T) T        { return s[mLength(s)-1] }

func mTail[T any](s []T) []T {
	out := make([]T, 0)
	for i := 1; i < mLength(s); i++ {
		out = append(out, s[i])
	}
	return out
}

func mPopLast[T any](s []T) []T {
	out := make([]T, 0)
	for i := 0; i+1 < mLength(s); i++ {
		out = append(out, s[i])
	}
	return out
}

func mTake[T any](n int, s []T) []T {
	out := make([]T, 0)
	for i := 0; i < n; i++ {
		out = append(out, s[i])
	}
	return out
}

func mSkip[T any](n int, s []T) []T {
	out := make([]T, 0)
	for i := n; i < mLength(s); i++ {
		out = append(out, s[i])
	}
	return out
}

func mPushHead[T any](e T, s []T) []T {
	out := []T{e}
	for i := 0; i < mLength(s); i++ {
		out = append(out, s[i])
	}
	return out
}

func mPushLast[T any](e T, s []T) []T {
	out := make([]T, 0)
	for i := 0; i < mLength(s); i++ {
		out = append(out, s[i])
	}
	return append(out, e)
}

func mMap[T, U any](f func(T) U, s []T) []U {
	out := make([]U, 0)
	for i := 0; i < mLength(s); i++ {
		out = append(out, f(s[i]))
	}
	return out
}

func mMapi[T, U any](f func(int, T) U, s []T) []U {
	out := make([]U, 0)
	for i := 0; i < mLength(s); i++ {
		out = append(out, f(i, s[i]))
	}
	return out
}

func mFilter[T any](p func(T) bool, s []T) []T {
	out := make([]T, 0)
	for i := 0; i < mLength(s); i++ {
		if p(s[i]) {
			out = append(out, s[i])
		}
	}
	return out
}

func mAppend[T any](a, b []T) []T {
	out := make([]T, 0)
	for i := 0; i < mLength(a); i++ {
		out = append(out, a[i])
	}
	for i := 0; i < mLength(b); i++ {
		out = append(out, b[i])
	}
	return out
}

func mConcat[T any](ss [][]T) []T {
	out := make([]T, 0)
	for i := 0; i < len(ss); i++ {
		out = mAppend(out, ss[i])
	}
	return out
}

func mCollect[T, U any](f func(T) []U, s []T) []U {
	out := make([]U, 0)
	for i := 0; i < mLength(s); i++ {
		out = mAppend(out, f(s[i]))
	}
	return out
}

type pair[T, U any] struct {
	A T
	B U
}

func mZip[T, U any](a []T, b []U) []pair[T, U] {
	out := make([]pair[T, U], 0)
	for i := 0; i < mLength(a); i++ {
		out = append(out, pair[T, U]{a[i], b[i]})
	}
	return out
}

func mFold[T, S any](f func(S, T) S, init S, s []T) S {
	acc := init
	for i := 0; i < mLength(s); i++ {
		acc = f(acc, s[i])
	}
	return acc
}

// mScan models Forall/Forany/TryFind: the predicate is applied left to right
// and no further element is tested once the answer is known. It returns the
// index of the deciding element (or -1) and the number of predicate calls.
func mScan[T any](p func(T) bool, s []T, stopOn bool) (idx int, calls int) {
	for i := 0; i < mLength(s); i++ {
		calls++
		if p(s[i]) == stopOn {
			return i, calls
		}
	}
	return -1, calls
}

func mDistinct[T comparable](s []T) []T {
	out := make([]T, 0)
	for i := 0; i < mLength(s); i++ {
		seen := false
		for j := 0; j < len(out); j++ {
			if out[j] == s[i] {
				seen = true
			}
		}
		if !seen {
			out = append(out, s[i])
		}
	}
	return out
}

// isPermutation: same multiset.
func isPermutation[T comparable](a, b []T) bool {
	if mLength(a) != mLength(b) {
		return false
	}
	used := make([]bool, len(b))
	for i := range a {
		found := false
		for j := range b {
			if !used[j] && a[i] == b[j] {
				used[j] = true
				found = true
				break
			}
		}
		if !found {
			return false
		}
	}
	return true
}

func eqSlice[T comparable](a, b []T) bool {
	if mLength(a) != mLength(b) {
		return false
	}
	for i := range a {
		if a[i] != b[i] {
			return false
		}
	}
	return true
}
