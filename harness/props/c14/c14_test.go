// C14: dict, strings, buf and frt helpers behave as their signatures promise.
package c14

import (
	"encoding/json"
	"fmt"
	"io"
	"math"
	"os"
	"sort"
	"strconv"
	gostrings "strings"
	"testing"

	"github.com/karino2/folang/pkg/buf"
	"github.com/karino2/folang/pkg/dict"
	"github.com/karino2/folang/pkg/frt"
	fstrings "github.com/karino2/folang/pkg/strings"
	"pgregory.net/rapid"

	"verif/harness/vt"
)

// ---------------------------------------------------------------- dict ----

type DictOp struct {
	Op  string   `json:"op"`
	K   string   `json:"k,omitempty"`
	V   int      `json:"v,omitempty"`
	KVs []DictKV `json:"kvs,omitempty"`
}
type DictKV struct {
	K string `json:"k"`
	V int    `json:"v"`
}
type DictCase struct {
	IntKeys bool     `json:"int_keys,omitempty"`
	Ops     []DictOp `json:"ops"`
}

type dictModel struct {
	keys []string
	vals map[string]int
}

func (m *dictModel) add(k string, v int) {
	if _, ok := m.vals[k]; !ok {
		m.keys = append(m.keys, k)
	}
	m.vals[k] = v
}

func sortedStrs(s []string) []string {
	out := append([]string{}, s...)
	sort.Strings(out)
	return out
}
func sortedInts(s []int) []int {
	out := append([]int{}, s...)
	sort.Ints(out)
	return out
}

// dictRun replays the history on a real dict (key type K derived from the
// string key by conv) and on the model.
func dictRun[K comparable](c DictCase, conv func(string) K, back func(K) string) (labels map[string]bool, err error) {
	labels = map[string]bool{}
	d := dict.New[K, int]()
	m := &dictModel{vals: map[string]int{}}
	verify := func(after string) error {
		// enumerations list each entry exactly once
		var ks []string
		for _, k := range dict.Keys(d) {
			ks = append(ks, back(k))
		}
		if fmt.Sprint(sortedStrs(ks)) != fmt.Sprint(sortedStrs(m.keys)) {
			return fmt.Errorf("after %s: Keys = %v, model has %v", after, sortedStrs(ks), sortedStrs(m.keys))
		}
		var wantVals []int
		for _, k := range m.keys {
			wantVals = append(wantVals, m.vals[k])
		}
		if g := sortedInts(dict.Values(d)); fmt.Sprint(g) != fmt.Sprint(sortedInts(wantVals)) {
			return fmt.Errorf("after %s: Values = %v, model has %v", after, g, sortedInts(wantVals))
		}
		kvs := dict.KVs(d)
		if len(kvs) != len(m.keys) {
			return fmt.Errorf("after %s: KVs lists %d entries, model has %d", after, len(kvs), len(m.keys))
		}
		seen := map[string]bool{}
		for _, kv := range kvs {
			k := back(kv.E0)
			if seen[k] {
				return fmt.Errorf("after %s: KVs lists key %q twice", after, k)
			}
			seen[k] = true
			if w, ok := m.vals[k]; !ok || w != kv.E1 {
				return fmt.Errorf("after %s: KVs has (%q,%d), model has %d (present=%v)", after, k, kv.E1, w, ok)
			}
		}
		return nil
	}
	for i, op := range c.Ops {
		name := fmt.Sprintf("op %d %s(%q)", i, op.Op, op.K)
		switch op.Op {
		case "Add":
			if _, ok := m.vals[op.K]; ok {
				labels["overwrite"] = true
			}
			dict.Add(d, conv(op.K), op.V)
			m.add(op.K, op.V)
		case "TryFind":
			g := dict.TryFind(d, conv(op.K))
			w, ok := m.vals[op.K]
			if !ok {
				labels["lookup-absent"] = true
			}
			if g.E1 != ok || (ok && g.E0 != w) {
				return labels, fmt.Errorf("%s = (%d,%v), model gives (%d,%v)", name, g.E0, g.E1, w, ok)
			}
		case "ContainsKey":
			_, ok := m.vals[op.K]
			if !ok {
				labels["lookup-absent"] = true
			}
			if g := dict.ContainsKey(d, conv(op.K)); g != ok {
				return labels, fmt.Errorf("%s = %v, model gives %v", name, g, ok)
			}
		case "Item":
			w, ok := m.vals[op.K]
			if !ok {
				continue // Item is only defined on present keys
			}
			if g := dict.Item(d, conv(op.K)); g != w {
				return labels, fmt.Errorf("%s = %d, model gives %d", name, g, w)
			}
		case "ToDict":
			var pairs []frt.Tuple2[K, int]
			m = &dictModel{vals: map[string]int{}}
			for _, kv := range op.KVs {
				pairs = append(pairs, frt.NewTuple2(conv(kv.K), kv.V))
				if _, ok := m.vals[kv.K]; ok {
					labels["todict-duplicate-key"] = true
				}
				m.add(kv.K, kv.V)
			}
			d = dict.ToDict(pairs)
		case "Enumerate":
		default:
			return labels, fmt.Errorf("unknown op %q", op.Op)
		}
		if err := verify(name); err != nil {
			return labels, err
		}
	}
	return labels, nil
}

func checkDict(c DictCase) error {
	_, err := dictRunAny(c)
	return err
}

func dictRunAny(c DictCase) (map[string]bool, error) {
	if c.IntKeys {
		return dictRun(c, func(s string) int { return intKeyOf[s] }, func(k int) string { return intKeyBack[k] })
	}
	return dictRun(c, func(s string) string { return s }, func(k string) string { return k })
}

var dictKeys = []string{"", "a", "b", "ab", "ba", "A", "k1", "k2", "é"}
var intKeyOf, intKeyBack = func() (map[string]int, map[int]string) {
	a, b := map[string]int{}, map[int]string{}
	for i, k := range dictKeys {
		a[k] = i*7 - 3
		b[i*7-3] = k
	}
	return a, b
}()

func sumBytes(s string) int {
	n := 0
	for i := 0; i < len(s); i++ {
		n += int(s[i])
	}
	return n
}

func TestDict(t *testing.T) {
	e := vt.Get()
	defer e.Flush()
	rapid.Check(t, func(rt *rapid.T) {
		c := DictCase{IntKeys: rapid.Bool().Draw(rt, "intKeys")}
		n := rapid.IntRange(1, 25).Draw(rt, "n")
		nkeys := rapid.IntRange(2, len(dictKeys)).Draw(rt, "nkeys")
		key := rapid.SampledFrom(dictKeys[:nkeys])
		for i := 0; i < n; i++ {
			op := DictOp{Op: rapid.SampledFrom([]string{"Add", "Add", "Add", "TryFind", "ContainsKey", "Item", "Enumerate", "ToDict"}).Draw(rt, "op")}
			op.K = key.Draw(rt, "k")
			op.V = rapid.IntRange(-3, 9).Draw(rt, "v")
			if op.Op == "ToDict" {
				k := rapid.IntRange(0, 6).Draw(rt, "npairs")
				for j := 0; j < k; j++ {
					op.KVs = append(op.KVs, DictKV{key.Draw(rt, "pk"), rapid.IntRange(-3, 9).Draw(rt, "pv")})
				}
			}
			c.Ops = append(c.Ops, op)
		}
		var labels map[string]bool
		e.Check(rt, "dict", c, func() error {
			var err error
			labels, err = dictRunAny(c)
			return err
		})
		var ls []string
		for l := range labels {
			ls = append(ls, l)
		}
		sort.Strings(ls)
		e.Record("TestDict", vt.HashJSON(c), labels["overwrite"] && labels["lookup-absent"], ls, func() any { return c })
	})
}

// ------------------------------------------------------------- strings ----

type StrCase struct {
	Fn string   `json:"fn"`
	A  string   `json:"a"`
	B  string   `json:"b"`
	C  string   `json:"c"`
	N  int      `json:"n"`
	L  []string `json:"l,omitempty"`
}

func eqStrs(a, b []string) bool {
	if len(a) != len(b) {
		return false
	}
	for i := range a {
		if a[i] != b[i] {
			return false
		}
	}
	return true
}

// checkStr writes out, per wrapper, the Go standard-library call it must equal
// with the pipeline-friendly argument order (subject last).
func checkStr(c StrCase) error {
	bad := func(got, want any) error {
		return fmt.Errorf("strings.%s(%q, %q, %q, n=%d, %q): got %#v, want %#v", c.Fn, c.A, c.B, c.C, c.N, c.L, got, want)
	}
	switch c.Fn {
	case "Concat": // Concat sep xs
		if g, w := fstrings.Concat(c.A, c.L), gostrings.Join(c.L, c.A); g != w {
			return bad(g, w)
		}
	case "Length":
		if g, w := fstrings.Length(c.A), len(c.A); g != w {
			return bad(g, w)
		}
	case "AppendTail": // AppendTail tail s
		if g, w := fstrings.AppendTail(c.A, c.B), c.B+c.A; g != w {
			return bad(g, w)
		}
	case "AppendHead": // AppendHead head s
		if g, w := fstrings.AppendHead(c.A, c.B), c.A+c.B; g != w {
			return bad(g, w)
		}
	case "HasSuffix": // HasSuffix suffix s
		if g, w := fstrings.HasSuffix(c.A, c.B), gostrings.HasSuffix(c.B, c.A); g != w {
			return bad(g, w)
		}
	case "TrimSuffix": // TrimSuffix suffix s
		if g, w := fstrings.TrimSuffix(c.A, c.B), gostrings.TrimSuffix(c.B, c.A); g != w {
			return bad(g, w)
		}
	case "HasPrefix": // HasPrefix prefix s
		if g, w := fstrings.HasPrefix(c.A, c.B), gostrings.HasPrefix(c.B, c.A); g != w {
			return bad(g, w)
		}
	case "EncloseWith": // EncloseWith beg end center
		if g, w := fstrings.EncloseWith(c.A, c.B, c.C), c.A+c.C+c.B; g != w {
			return bad(g, w)
		}
	case "Split": // Split sep s
		if g, w := fstrings.Split(c.A, c.B), gostrings.Split(c.B, c.A); !eqStrs(g, w) {
			return bad(g, w)
		}
	case "SplitN": // SplitN n sep s
		if g, w := fstrings.SplitN(c.N, c.A, c.B), gostrings.SplitN(c.B, c.A, c.N); !eqStrs(g, w) {
			return bad(g, w)
		}
	case "IsEmpty":
		if g, w := fstrings.IsEmpty(c.A), len(c.A) == 0; g != w {
			return bad(g, w)
		}
	case "IsNotEmpty":
		if g, w := fstrings.IsNotEmpty(c.A), len(c.A) != 0; g != w {
			return bad(g, w)
		}
	default:
		return fmt.Errorf("unknown function %q", c.Fn)
	}
	return nil
}

var strFns = []string{"Concat", "Length", "AppendTail", "AppendHead", "HasSuffix", "TrimSuffix", "HasPrefix", "EncloseWith", "Split", "SplitN", "IsEmpty", "IsNotEmpty"}

func genPiece(t *rapid.T, label string) string {
	atoms := []string{"a", "b", ",", ";", " ", "ab", "é", ".fo", "x"}
	n := rapid.IntRange(0, 6).Draw(t, label+"N")
	var sb gostrings.Builder
	for i := 0; i < n; i++ {
		sb.WriteString(rapid.SampledFrom(atoms).Draw(t, label))
	}
	return sb.String()
}

func TestStrings(t *testing.T) {
	e := vt.Get()
	defer e.Flush()
	rapid.Check(t, func(rt *rapid.T) {
		c := StrCase{Fn: rapid.SampledFrom(strFns).Draw(rt, "fn")}
		seps := []string{",", ";", "ab", "", " ", ".fo", "a"}
		switch c.Fn {
		case "Split", "SplitN", "Concat":
			c.A = rapid.SampledFrom(seps).Draw(rt, "sep")
		case "HasSuffix", "TrimSuffix", "HasPrefix":
			c.A = rapid.SampledFrom([]string{"", "a", ".fo", "ab", ",", "b"}).Draw(rt, "affix")
		default:
			c.A = genPiece(rt, "a")
		}
		c.B = genPiece(rt, "b")
		// make the affix actually occur at the ends often
		switch rapid.IntRange(0, 3).Draw(rt, "place") {
		case 0:
			c.B = c.B + c.A
		case 1:
			c.B = c.A + c.B
		case 2:
			c.B = c.A + c.B + c.A + c.A
		}
		c.C = genPiece(rt, "c")
		c.N = rapid.IntRange(-1, 4).Draw(rt, "n")
		k := rapid.IntRange(0, 4).Draw(rt, "nl")
		for i := 0; i < k; i++ {
			c.L = append(c.L, genPiece(rt, "l"))
		}
		e.Record("TestStrings", vt.HashJSON(c), c.A != c.B, []string{"fn:" + c.Fn}, func() any { return c })
		e.Check(rt, "strings", c, func() error { return checkStr(c) })
	})
}

// ----------------------------------------------------------------- buf ----

type BufCase struct {
	Writes []string `json:"writes"`
	Reads  []int    `json:"reads"` // after which write counts String() is also read
}

func checkBuf(c BufCase) error {
	b := buf.New()
	want := ""
	readAt := map[int]bool{}
	for _, r := range c.Reads {
		readAt[r] = true
	}
	if g := buf.String(b); g != "" {
		return fmt.Errorf("fresh buffer holds %q", g)
	}
	for i, w := range c.Writes {
		buf.Write(b, w)
		want += w
		if readAt[i] {
			if g := buf.String(b); g != want {
				return fmt.Errorf("after %d writes String = %q, want %q", i+1, g, want)
			}
		}
	}
	if g := buf.String(b); g != want {
		return fmt.Errorf("String = %q, want the writes in order %q", g, want)
	}
	if g := buf.String(b); g != want {
		return fmt.Errorf("second String = %q, want %q (String must not consume)", g, want)
	}
	b2 := buf.New()
	if g := buf.String(b2); g != "" {
		return fmt.Errorf("a second buffer shares content %q", g)
	}
	return nil
}

// BufsCase: a history over several buffers. Op: "new" | "write" (buffer I, text S) | "read" (buffer I).
type BufsCase struct {
	Ops []BufOp `json:"ops"`
}

type BufOp struct {
	Op string `json:"op"`
	I  int    `json:"i,omitempty"`
	S  string `json:"s,omitempty"`
}

// checkBufs: every buffer accumulates exactly its own writes, whatever is done to the others and whenever
// buffers are created or read.
func checkBufs(c BufsCase) error {
	var bs []buf.Buffer
	var model []string
	for k, op := range c.Ops {
		switch op.Op {
		case "new":
			bs = append(bs, buf.New())
			model = append(model, "")
		case "write":
			if len(bs) == 0 {
				continue
			}
			i := op.I % len(bs)
			buf.Write(bs[i], op.S)
			model[i] += op.S
		case "read":
			if len(bs) == 0 {
				continue
			}
			i := op.I % len(bs)
			if g := buf.String(bs[i]); g != model[i] {
				return fmt.Errorf("step %d: String of buffer %d = %q, its writes in order are %q", k, i, g, model[i])
			}
		}
	}
	for i := range bs {
		if g := buf.String(bs[i]); g != model[i] {
			return fmt.Errorf("at the end: String of buffer %d = %q, its writes in order are %q", i, g, model[i])
		}
	}
	return nil
}

func TestBufs(t *testing.T) {
	e := vt.Get()
	defer e.Flush()
	rapid.Check(t, func(rt *rapid.T) {
		c := BufsCase{Ops: []BufOp{{Op: "new"}}}
		n := rapid.IntRange(1, 14).Draw(rt, "n")
		news, readThenNew := 1, false
		lastWasRead := false
		for i := 0; i < n; i++ {
			switch rapid.IntRange(0, 5).Draw(rt, "op") {
			case 0:
				c.Ops = append(c.Ops, BufOp{Op: "new"})
				news++
				if lastWasRead {
					readThenNew = true
				}
				lastWasRead = false
			case 1, 2:
				c.Ops = append(c.Ops, BufOp{Op: "read", I: rapid.IntRange(0, 3).Draw(rt, "which")})
				lastWasRead = true
			default:
				c.Ops = append(c.Ops, BufOp{Op: "write", I: rapid.IntRange(0, 3).Draw(rt, "which"), S: genPiece(rt, "w")})
				lastWasRead = false
			}
		}
		labels := []string{"bufs"}
		if readThenNew {
			labels = append(labels, "a buffer created right after another one was read")
		}
		e.Record("TestBufs", vt.HashJSON(c), news >= 2, labels, func() any { return c })
		e.Check(rt, "bufs", c, func() error { return checkBufs(c) })
	})
}

func TestBuf(t *testing.T) {
	e := vt.Get()
	defer e.Flush()
	rapid.Check(t, func(rt *rapid.T) {
		var c BufCase
		n := rapid.IntRange(0, 10).Draw(rt, "n")
		for i := 0; i < n; i++ {
			c.Writes = append(c.Writes, genPiece(rt, "w"))
			if rapid.IntRange(0, 3).Draw(rt, "read") == 0 {
				c.Reads = append(c.Reads, i)
			}
		}
		e.Record("TestBuf", vt.HashJSON(c), len(c.Writes) >= 2, []string{"buf"}, func() any { return c })
		e.Check(rt, "buf", c, func() error { return checkBuf(c) })
	})
}

// ----------------------------------------------------------------- frt ----

type FrtCase struct {
	What string  `json:"what"`
	Kind string  `json:"kind,omitempty"`
	I    int64   `json:"i,omitempty"`
	U    uint64  `json:"u,omitempty"`
	F    float64 `json:"f,omitempty"`
	S    string  `json:"s,omitempty"`
	S2   string  `json:"s2,omitempty"`
	B    bool    `json:"b,omitempty"`
	Pre  string  `json:"pre,omitempty"`
	Mid  string  `json:"mid,omitempty"`
	Post string  `json:"post,omitempty"`
}

type namedInt int
type namedU8 uint8
type namedStr string
type rec struct {
	A int
	b string
}

var kinds = []string{"int", "int8", "int16", "int32", "int64", "uint", "uint8", "uint16", "uint32", "uint64", "uintptr",
	"namedInt", "namedU8", "float32", "float64", "string", "namedStr", "bool", "struct", "slice", "nil", "tuple"}

// value builds the Go value of the case's kind and what the documented display
// rule gives for it: decimal for integers, the string itself for strings, Go
// %v otherwise; isFloat marks the kinds for which only "parses back to the
// value" is demanded.
func (c FrtCase) value() (v any, want string, isFloat bool) {
	switch c.Kind {
	case "int":
		x := int(c.I)
		return x, strconv.FormatInt(int64(x), 10), false
	case "int8":
		x := int8(c.I)
		return x, strconv.FormatInt(int64(x), 10), false
	case "int16":
		x := int16(c.I)
		return x, strconv.FormatInt(int64(x), 10), false
	case "int32":
		x := int32(c.I)
		return x, strconv.FormatInt(int64(x), 10), false
	case "int64":
		return c.I, strconv.FormatInt(c.I, 10), false
	case "namedInt":
		x := namedInt(c.I)
		return x, strconv.FormatInt(int64(x), 10), false
	case "uint":
		x := uint(c.U)
		return x, strconv.FormatUint(uint64(x), 10), false
	case "uint8":
		x := uint8(c.U)
		return x, strconv.FormatUint(uint64(x), 10), false
	case "uint16":
		x := uint16(c.U)
		return x, strconv.FormatUint(uint64(x), 10), false
	case "uint32":
		x := uint32(c.U)
		return x, strconv.FormatUint(uint64(x), 10), false
	case "uint64":
		return c.U, strconv.FormatUint(c.U, 10), false
	case "uintptr":
		x := uintptr(c.U)
		return x, strconv.FormatUint(uint64(x), 10), false
	case "namedU8":
		x := namedU8(c.U)
		return x, strconv.FormatUint(uint64(x), 10), false
	case "float32":
		return float32(c.F), "", true
	case "float64":
		return c.F, "", true
	case "string":
		return c.S, c.S, false
	case "namedStr":
		return namedStr(c.S), c.S, false
	case "bool":
		return c.B, strconv.FormatBool(c.B), false
	case "struct":
		x := rec{int(c.I), c.S}
		return x, fmt.Sprintf("%v", x), false
	case "slice":
		x := []int{int(c.I), 2}
		return x, fmt.Sprintf("%v", x), false
	case "tuple":
		x := frt.NewTuple2(int(c.I), c.S)
		return x, fmt.Sprintf("%v", x), false
	case "nil":
		return nil, fmt.Sprintf("%v", nil), false
	}
	return nil, "?", false
}

func floatOK(got string, want float64) error {
	g, err := strconv.ParseFloat(got, 64)
	if err != nil {
		return fmt.Errorf("float rendered as %q, which does not parse back", got)
	}
	if math.IsNaN(want) || math.IsInf(want, 0) {
		return nil
	}
	tol := 1e-6 * math.Max(1, math.Abs(want))
	if math.Abs(g-want) > tol {
		return fmt.Errorf("float %v rendered as %q (= %v)", want, got, g)
	}
	return nil
}

// captureStdout runs f with os.Stdout redirected into a pipe and returns what was written.
func captureStdout(f func()) (string, error) {
	r, w, err := os.Pipe()
	if err != nil {
		return "", err
	}
	old := os.Stdout
	os.Stdout = w
	done := make(chan string, 1)
	go func() {
		b, _ := io.ReadAll(r)
		done <- string(b)
	}()
	func() {
		defer func() { os.Stdout = old; w.Close() }()
		f()
	}()
	out := <-done
	r.Close()
	return out, nil
}

func checkFrt(c FrtCase) error {
	switch c.What {
	case "SInterP":
		v, want, isFloat := c.value()
		// literal text around one hole; %% is a literal percent sign for Sprintf-style formats
		format := gostrings.ReplaceAll(c.Pre, "%", "%%") + "%s" + gostrings.ReplaceAll(c.Post, "%", "%%")
		got := frt.SInterP(format, v)
		if !gostrings.HasPrefix(got, c.Pre) || !gostrings.HasSuffix(got, c.Post) || len(got) < len(c.Pre)+len(c.Post) {
			return fmt.Errorf("SInterP(%q, %s %v) = %q: literal text not preserved", format, c.Kind, v, got)
		}
		hole := got[len(c.Pre) : len(got)-len(c.Post)]
		if isFloat {
			f := c.F
			if c.Kind == "float32" {
				f = float64(float32(c.F))
			}
			if err := floatOK(hole, f); err != nil {
				return fmt.Errorf("SInterP %s: %v", c.Kind, err)
			}
			return nil
		}
		if hole != want {
			return fmt.Errorf("SInterP(%q, %s value) = %q: hole shows %q, the display form is %q", format, c.Kind, got, hole, want)
		}
	case "SInterP0":
		// no hole at all: the compiler still writes every literal % as %%, so the text comes back unescaped
		text := c.Pre + c.S + c.Mid + c.S2 + c.Post
		if got := frt.SInterP(gostrings.ReplaceAll(text, "%", "%%")); got != text {
			return fmt.Errorf("SInterP without holes (%q): got %q, want %q", gostrings.ReplaceAll(text, "%", "%%"), got, text)
		}
	case "SInterP3":
		v, want, isFloat := c.value()
		if isFloat {
			return nil
		}
		esc := func(x string) string { return gostrings.ReplaceAll(x, "%", "%%") }
		got := frt.SInterP(esc(c.Pre)+"%s"+esc(c.Mid)+"%s"+esc(c.Mid)+"%s"+esc(c.Post), c.S2, v, c.S)
		if w := c.Pre + c.S2 + c.Mid + want + c.Mid + c.S + c.Post; got != w {
			return fmt.Errorf("SInterP three holes: got %q, want %q (arguments in order, literal text kept)", got, w)
		}
	case "SInterP2":
		v, want, isFloat := c.value()
		if isFloat {
			return nil
		}
		got := frt.SInterP("%s"+gostrings.ReplaceAll(c.Mid, "%", "%%")+"%s", c.S2, v)
		if w := c.S2 + c.Mid + want; got != w {
			return fmt.Errorf("SInterP two holes (%q, %s): got %q, want %q (arguments in order)", c.S2, c.Kind, got, w)
		}
	case "Sprintf1":
		v, _, _ := c.value()
		// the verb alone, and inside literal text that contains escaped percent signs
		pre, post := gostrings.ReplaceAll(c.Pre, "%", "%%"), gostrings.ReplaceAll(c.Post, "%", "%%")
		for _, verb := range []string{"%v", "[%v]", "%d|", "%s", "%q", "%5v"} {
			for _, f := range []string{verb, pre + verb + post, verb + "%%", "%%" + verb + ": 100%% done"} {
				if g, w := frt.Sprintf1(f, v), fmt.Sprintf(f, v); g != w {
					return fmt.Errorf("Sprintf1(%q, %s): got %q, fmt gives %q", f, c.Kind, g, w)
				}
			}
		}
	case "Printf1":
		v, _, _ := c.value()
		pre, post := gostrings.ReplaceAll(c.Pre, "%", "%%"), gostrings.ReplaceAll(c.Post, "%", "%%")
		for _, f := range []string{"%v\n", pre + "%v" + post, "%s%%", "%d%% of " + pre, "%v"} {
			got, err := captureStdout(func() { frt.Printf1(f, v) })
			if err != nil {
				return fmt.Errorf("harness: %v", err)
			}
			if w := fmt.Sprintf(f, v); got != w {
				return fmt.Errorf("Printf1(%q, %s) printed %q, fmt gives %q", f, c.Kind, got, w)
			}
		}
		got, err := captureStdout(func() { frt.Println(c.S) })
		if err != nil {
			return fmt.Errorf("harness: %v", err)
		}
		if got != c.S+"\n" {
			return fmt.Errorf("Println(%q) printed %q", c.S, got)
		}
	case "Sprintf2":
		v, _, _ := c.value()
		if g, w := frt.Sprintf2("%v-%v", c.S2, v), fmt.Sprintf("%v-%v", c.S2, v); g != w {
			return fmt.Errorf("Sprintf2: got %q, fmt gives %q (arguments in order)", g, w)
		}
		if g, w := frt.Sprintf2("%v-%s", v, c.S2), fmt.Sprintf("%v-%s", v, c.S2); g != w {
			return fmt.Errorf("Sprintf2: got %q, fmt gives %q (arguments in order)", g, w)
		}
	case "Pipe":
		calls := 0
		f := func(x int64) string { calls++; return "<" + strconv.FormatInt(x, 10) + c.S + ">" }
		got := frt.Pipe(c.I, f)
		if calls != 1 {
			return fmt.Errorf("Pipe called the function %d times", calls)
		}
		calls = 0
		if want := f(c.I); got != want {
			return fmt.Errorf("Pipe x f = %q, f x = %q", got, want)
		}
		var seen []int64
		frt.PipeUnit(c.I, func(x int64) { seen = append(seen, x) })
		if len(seen) != 1 || seen[0] != c.I {
			return fmt.Errorf("PipeUnit passed %v, want one call with %d", seen, c.I)
		}
	case "If":
		tc, fc := 0, 0
		got := frt.IfElse(c.B, func() string { tc++; return "T" + c.S }, func() string { fc++; return "F" + c.S2 })
		wantT, wantF := 0, 1
		want := "F" + c.S2
		if c.B {
			wantT, wantF, want = 1, 0, "T"+c.S
		}
		if got != want || tc != wantT || fc != wantF {
			return fmt.Errorf("IfElse(%v): result %q (want %q), then-branch ran %d times (want %d), else-branch %d (want %d)", c.B, got, want, tc, wantT, fc, wantF)
		}
		tc, fc = 0, 0
		frt.IfElseUnit(c.B, func() { tc++ }, func() { fc++ })
		if tc != wantT || fc != wantF {
			return fmt.Errorf("IfElseUnit(%v): then ran %d (want %d), else ran %d (want %d)", c.B, tc, wantT, fc, wantF)
		}
		tc = 0
		frt.IfOnly(c.B, func() { tc++ })
		if tc != wantT {
			return fmt.Errorf("IfOnly(%v): body ran %d times, want %d", c.B, tc, wantT)
		}
	case "Tuple":
		t2 := frt.NewTuple2(c.I, c.S)
		if frt.Fst(t2) != c.I || frt.Snd(t2) != c.S {
			return fmt.Errorf("Fst/Snd of NewTuple2(%d,%q) = %v,%v", c.I, c.S, frt.Fst(t2), frt.Snd(t2))
		}
		a, b := frt.Destr2(t2)
		a0, b0 := frt.Destr(t2)
		if a != c.I || b != c.S || a0 != c.I || b0 != c.S {
			return fmt.Errorf("Destr2 of NewTuple2(%d,%q) = %v,%v", c.I, c.S, a, b)
		}
		if t2.E0 != c.I || t2.E1 != c.S {
			return fmt.Errorf("NewTuple2 fields E0,E1 = %v,%v", t2.E0, t2.E1)
		}
		t3 := frt.NewTuple3(c.S, c.I, c.S2)
		x, y, z := frt.Destr3(t3)
		if x != c.S || y != c.I || z != c.S2 || t3.E0 != c.S || t3.E1 != c.I || t3.E2 != c.S2 {
			return fmt.Errorf("Destr3 of NewTuple3(%q,%d,%q) = %v,%v,%v", c.S, c.I, c.S2, x, y, z)
		}
	case "Ops":
		for _, p := range []bool{false, true} {
			if frt.OpNot(p) != !p {
				return fmt.Errorf("OpNot(%v)", p)
			}
			for _, q := range []bool{false, true} {
				if frt.OpAnd(p, q) != (p && q) {
					return fmt.Errorf("OpAnd(%v,%v)", p, q)
				}
			}
		}
		if frt.Empty[int]() != 0 || frt.Empty[string]() != "" || frt.Empty[[]int]() != nil {
			return fmt.Errorf("Empty is not the zero value")
		}
		frt.Assert(true, c.S)
		msg := func(f func()) (m any) {
			defer func() { m = recover() }()
			f()
			return nil
		}
		if m := msg(func() { frt.Assert(false, c.S) }); m != c.S {
			return fmt.Errorf("Assert(false, %q) panicked with %v", c.S, m)
		}
		if m := msg(func() { frt.Panic(c.S) }); m != c.S {
			return fmt.Errorf("Panic(%q) panicked with %v", c.S, m)
		}
		if m := msg(func() { frt.Panicf1("a%vb", c.I) }); m != fmt.Sprintf("a%vb", c.I) {
			return fmt.Errorf("Panicf1 panicked with %v", m)
		}
		if m := msg(func() { frt.Panicf2("%v:%v", c.S, c.I) }); m != fmt.Sprintf("%v:%v", c.S, c.I) {
			return fmt.Errorf("Panicf2 panicked with %v", m)
		}
	default:
		return fmt.Errorf("unknown case %q", c.What)
	}
	return nil
}

func TestFrt(t *testing.T) {
	e := vt.Get()
	defer e.Flush()
	rapid.Check(t, func(rt *rapid.T) {
		c := FrtCase{}
		c.What = rapid.SampledFrom([]string{"SInterP", "SInterP", "SInterP2", "SInterP0", "SInterP3", "Sprintf1", "Sprintf2", "Printf1", "Pipe", "If", "Tuple", "Ops"}).Draw(rt, "what")
		c.Kind = rapid.SampledFrom(kinds).Draw(rt, "kind")
		c.I = rapid.OneOf(rapid.Int64Range(-5, 300), rapid.Int64(), rapid.SampledFrom([]int64{math.MinInt64, math.MaxInt64, -1, 0, 127, 128, 255, 256, 65535, 1 << 31, 1 << 32})).Draw(rt, "i")
		c.U = rapid.OneOf(rapid.Uint64Range(0, 300), rapid.Uint64(), rapid.SampledFrom([]uint64{math.MaxUint64, 1 << 63, 1<<63 - 1, 255, 65535, 1 << 32})).Draw(rt, "u")
		c.F = rapid.OneOf(rapid.Float64Range(-1000, 1000), rapid.SampledFrom([]float64{0, 1, -1, 0.5, 1e-3, 123456.789, 1e15})).Draw(rt, "f")
		lits := []string{"", "a", "x y", "100%", "%d", "{b}", "é", "\"q\"", "\\", "a\nb"}
		c.S = rapid.SampledFrom(lits).Draw(rt, "s")
		c.S2 = rapid.SampledFrom(lits).Draw(rt, "s2")
		c.B = rapid.Bool().Draw(rt, "b")
		c.Pre = rapid.SampledFrom([]string{"", "a=", "100% ", "[", "é"}).Draw(rt, "pre")
		c.Mid = rapid.SampledFrom([]string{"", ",", " % "}).Draw(rt, "mid")
		c.Post = rapid.SampledFrom([]string{"", "]", " %", "!"}).Draw(rt, "post")
		labels := []string{"what:" + c.What}
		nt := false
		switch c.What {
		case "SInterP0":
			nt = gostrings.Contains(c.Pre+c.S+c.Mid+c.S2+c.Post, "%")
		case "SInterP", "SInterP2", "SInterP3", "Sprintf1", "Sprintf2", "Printf1":
			labels = append(labels, "kind:"+c.Kind)
			nt = gostrings.HasPrefix(c.Kind, "uint") || gostrings.HasPrefix(c.Kind, "float") || c.Kind == "namedU8"
		default:
			nt = true
		}
		e.Record("TestFrt", vt.HashJSON(c), nt, labels, func() any { return c })
		e.Check(rt, "frt", c, func() error { return checkFrt(c) })
	})
}

func TestReplay(t *testing.T) {
	e := vt.Get()
	e.RunReplay(t, map[string]func(json.RawMessage) error{
		"dict":    vt.Handler(checkDict),
		"strings": vt.Handler(checkStr),
		"buf":     vt.Handler(checkBuf),
		"bufs":    vt.Handler(checkBufs),
		"frt":     vt.Handler(checkFrt),
	})
}
