// C15: type expressions map to Go types by the documented grammar, in each of
// the six syntactic positions.
package c15

import (
	"encoding/json"
	"fmt"
	"go/ast"
	"go/parser"
	"go/token"
	"go/types"
	"os"
	"path/filepath"
	"sort"
	"strings"
	"testing"
	"time"

	"pgregory.net/rapid"

	"verif/harness/pipeline"
	"verif/harness/vt"
)

// Ty is a Folang type expression.
type Ty struct {
	K     string `json:"k"`               // atom | slice | tuple | func | gen | unit
	Name  string `json:"name,omitempty"`  // atom / gen: Folang name (e.g. int, R0, ext.Thing, G, ext.Box)
	E     []Ty   `json:"e,omitempty"`     // slice: elem; tuple: elems; func: args..., result; gen: type args
	Extra int    `json:"extra,omitempty"` // redundant parentheses around this node
}

var unit = Ty{K: "unit"}

// reference translation (the documented mapping) in go/types.ExprString format
func (t Ty) goType() string {
	switch t.K {
	case "atom":
		if t.Name == "float" {
			return "float64"
		}
		return t.Name
	case "slice":
		return "[]" + t.E[0].goType()
	case "tuple":
		var p []string
		for _, e := range t.E {
			p = append(p, e.goType())
		}
		return fmt.Sprintf("frt.Tuple%d[%s]", len(t.E), strings.Join(p, ", "))
	case "func":
		args, res := t.E[:len(t.E)-1], t.E[len(t.E)-1]
		var p []string
		for _, a := range args {
			if a.K == "unit" {
				continue // a unit parameter is no parameter
			}
			p = append(p, a.goType())
		}
		s := "func(" + strings.Join(p, ", ") + ")"
		if res.K != "unit" {
			s += " " + res.goType()
		}
		return s
	case "gen":
		var p []string
		for _, e := range t.E {
			p = append(p, e.goType())
		}
		return t.Name + "[" + strings.Join(p, ", ") + "]"
	}
	return "?"
}

// source text with minimal parentheses by the documented precedence:
// [] binds tighter than *, * tighter than ->, -> chains are flat.
// level: 0 = full type, 1 = operand of -> (tuple allowed, func needs parens),
// 2 = operand of * or [] (tuple and func need parens)
func (t Ty) src(level int) string {
	var s string
	need := false
	switch t.K {
	case "unit":
		return "()"
	case "atom":
		s = t.Name
	case "slice":
		s = "[]" + t.E[0].src(2)
	case "tuple":
		var p []string
		for _, e := range t.E {
			p = append(p, e.src(2))
		}
		s = strings.Join(p, "*")
		need = level >= 2
	case "func":
		var p []string
		for _, e := range t.E {
			p = append(p, e.src(1))
		}
		s = strings.Join(p, "->")
		need = level >= 1
	case "gen":
		var p []string
		for _, e := range t.E {
			p = append(p, e.src(0))
		}
		s = t.Name + "<" + strings.Join(p, ", ") + ">"
	}
	if need {
		s = "(" + s + ")"
	}
	for i := 0; i < t.Extra; i++ {
		s = "(" + s + ")"
	}
	return s
}

func (t Ty) constructors() int {
	n := 0
	if t.K != "atom" && t.K != "unit" {
		n = 1
	}
	for _, e := range t.E {
		n += e.constructors()
	}
	return n
}

func (t Ty) kinds(set map[string]bool) {
	switch t.K {
	case "slice", "tuple", "func":
		set[t.K] = true
	case "gen":
		set["generic"] = true
	}
	if t.Extra > 0 {
		set["redundant parentheses"] = true
	}
	for _, e := range t.E {
		if e.K == "unit" {
			set["unit in function type"] = true
		}
		e.kinds(set)
	}
}

func nontrivial(t Ty) bool {
	set := map[string]bool{}
	t.kinds(set)
	n := 0
	for _, k := range []string{"slice", "tuple", "func", "generic"} {
		if set[k] {
			n++
		}
	}
	return n >= 2 || set["redundant parentheses"]
}

// --- enumeration ---------------------------------------------------------------

var fullAtoms = []string{"int", "string", "bool", "float", "any", "R0", "U0", "ext.Thing", "Wrapped"}
var reducedAtoms = []string{"int", "string", "ext.Thing"}

func atomsOf(names []string) []Ty {
	var out []Ty
	for _, n := range names {
		out = append(out, Ty{K: "atom", Name: n})
	}
	return out
}

type ctor struct {
	arity int
	mk    func(kids []Ty) Ty
}

var ctors = []ctor{
	{1, func(k []Ty) Ty { return Ty{K: "slice", E: k} }},
	{2, func(k []Ty) Ty { return Ty{K: "tuple", E: k} }},
	{3, func(k []Ty) Ty { return Ty{K: "tuple", E: k} }},
	{2, func(k []Ty) Ty { return Ty{K: "func", E: k} }},
	{3, func(k []Ty) Ty { return Ty{K: "func", E: k} }},
	{1, func(k []Ty) Ty { return Ty{K: "func", E: []Ty{unit, k[0]}} }},       // ()->A
	{1, func(k []Ty) Ty { return Ty{K: "func", E: []Ty{k[0], unit}} }},       // A->()
	{2, func(k []Ty) Ty { return Ty{K: "func", E: []Ty{k[0], k[1], unit}} }}, // A->B->()
	{1, func(k []Ty) Ty { return Ty{K: "gen", Name: "G", E: k} }},
	{1, func(k []Ty) Ty { return Ty{K: "gen", Name: "GU", E: k} }}, // a generic user UNION (its own branch in the type printer)
	{1, func(k []Ty) Ty { return Ty{K: "gen", Name: "ext.Box", E: k} }},
	{2, func(k []Ty) Ty { return Ty{K: "gen", Name: "ext.Pair", E: k} }},
}

// enum returns every expression with exactly k constructor applications.
func enum(k int, atoms []Ty, memo map[int][]Ty) []Ty {
	if v, ok := memo[k]; ok {
		return v
	}
	var out []Ty
	if k == 0 {
		out = atoms
	} else {
		for _, c := range ctors {
			// distribute k-1 constructors among c.arity children
			var rec func(i, left int, kids []Ty)
			rec = func(i, left int, kids []Ty) {
				if i == c.arity-1 {
					for _, last := range enum(left, atoms, memo) {
						out = append(out, c.mk(append(append([]Ty{}, kids...), last)))
					}
					return
				}
				for use := 0; use <= left; use++ {
					for _, kid := range enum(use, atoms, memo) {
						rec(i+1, left-use, append(kids, kid))
					}
				}
			}
			rec(0, k-1, nil)
		}
	}
	memo[k] = out
	return out
}

// --- rendering a file with every expression in the six positions -----------------

const prelude = `package main

import slice
import "example.com/ext"

package_info ext =
  type Thing
  type Box<T>
  type Pair<K, V>

@USERTYPES@
package_info _ =
  type Wrapped
  let mkNone<T>: ()->[]T
`

const userTypes = `type GU<T> =
  | GUa of T
  | GUb
type R0 = {X: int}
type U0 =
  | UA
  | UB of int
type G<T> = {V: T}
`

// the two non-generic user types as later members of an and-group (forward references from RecT / UniT);
// a forward reference cannot carry type arguments (observed: "non expected token"; and-groups are not in the
// documents, fc's own sources are the only guide), so G<T> stays declared in front
const userTypesAnd = `and R0 = {X: int}
and U0 =
  | UA
  | UB of int
`

var positions = []string{"param", "field", "payload", "pkginfo", "typearg", "utypearg"}

// render builds one .fo file placing expression i (for i in range) in the
// requested positions, and the table label -> expected Go type.
func render(exprs []Ty, pos map[string]bool) (string, map[string]string) {
	want := map[string]string{}
	var sb strings.Builder
	// pos["fwd"]: RecT / UniT open an and-group whose later members are the user types they mention
	fwd := pos["fwd"] && (pos["field"] || pos["payload"])
	if fwd {
		sb.WriteString(strings.Replace(prelude, "@USERTYPES@", "type G<T> = {V: T}\ntype GU<T> =\n  | GUa of T\n  | GUb\n", 1))
	} else {
		sb.WriteString(strings.Replace(prelude, "@USERTYPES@", userTypes, 1))
	}
	if pos["pkginfo"] {
		for i, t := range exprs {
			// the expression is an argument inside an arrow chain
			fmt.Fprintf(&sb, "  let ex%d: int -> %s -> int\n", i, t.src(1))
		}
	}
	sb.WriteString("\n")
	kw := "type"
	if pos["field"] {
		sb.WriteString(kw + " RecT = {\n")
		for i, t := range exprs {
			fmt.Fprintf(&sb, "  F%d: %s;\n", i, t.src(0))
			want[fmt.Sprintf("field:%d", i)] = t.goType()
		}
		sb.WriteString("}\n")
		if fwd {
			kw = "and"
		} else {
			sb.WriteString("\n")
		}
	}
	if pos["payload"] {
		sb.WriteString(kw + " UniT =\n")
		for i, t := range exprs {
			fmt.Fprintf(&sb, "  | K%d of %s\n", i, t.src(0))
			want[fmt.Sprintf("payload:%d", i)] = t.goType()
		}
		if !fwd {
			sb.WriteString("\n")
		}
	}
	if fwd {
		sb.WriteString(userTypesAnd + "\n")
	}
	for i, t := range exprs {
		if pos["param"] {
			fmt.Fprintf(&sb, "let pa%d (x: %s) = x\n\n", i, t.src(0))
			want[fmt.Sprintf("param:%d", i)] = t.goType()
		}
		if pos["pkginfo"] {
			fmt.Fprintf(&sb, "let pp%d () = ex%d 1\n\n", i, i)
			want[fmt.Sprintf("pkginfo:%d", i)] = t.goType()
		}
		if pos["typearg"] {
			fmt.Fprintf(&sb, "let ta%d () = slice.New<%s> ()\n\n", i, t.src(0))
			want[fmt.Sprintf("typearg:%d", i)] = t.goType()
		}
		if pos["utypearg"] {
			// explicit type argument on an unqualified name: another route through the parser
			fmt.Fprintf(&sb, "let tu%d () = mkNone<%s> ()\n\n", i, t.src(0))
			want[fmt.Sprintf("utypearg:%d", i)] = t.goType()
		}
	}
	return sb.String(), want
}

// --- reading the emitted Go -------------------------------------------------------

func extract(goSrc string) (map[string]string, error) {
	fset := token.NewFileSet()
	f, err := parser.ParseFile(fset, "gen.go", goSrc, 0)
	if err != nil {
		return nil, fmt.Errorf("emitted Go does not parse: %v", err)
	}
	got := map[string]string{}
	for _, d := range f.Decls {
		switch x := d.(type) {
		case *ast.GenDecl:
			for _, sp := range x.Specs {
				ts, ok := sp.(*ast.TypeSpec)
				if !ok {
					continue
				}
				st, ok := ts.Type.(*ast.StructType)
				if !ok {
					continue
				}
				if ts.Name.Name == "RecT" {
					for _, fl := range st.Fields.List {
						for _, n := range fl.Names {
							if strings.HasPrefix(n.Name, "F") {
								got["field:"+n.Name[1:]] = types.ExprString(fl.Type)
							}
						}
					}
				}
				if strings.HasPrefix(ts.Name.Name, "UniT_K") {
					for _, fl := range st.Fields.List {
						for _, n := range fl.Names {
							if n.Name == "Value" {
								got["payload:"+strings.TrimPrefix(ts.Name.Name, "UniT_K")] = types.ExprString(fl.Type)
							}
						}
					}
				}
			}
		case *ast.FuncDecl:
			name := x.Name.Name
			switch {
			case strings.HasPrefix(name, "pa") && isNum(name[2:]):
				if x.Type.Params != nil && len(x.Type.Params.List) == 1 {
					got["param:"+name[2:]] = types.ExprString(x.Type.Params.List[0].Type)
				}
			case strings.HasPrefix(name, "pp") && isNum(name[2:]):
				if x.Type.Results != nil && len(x.Type.Results.List) == 1 {
					if ft, ok := x.Type.Results.List[0].Type.(*ast.FuncType); ok && ft.Params != nil && len(ft.Params.List) == 1 {
						got["pkginfo:"+name[2:]] = types.ExprString(ft.Params.List[0].Type)
					}
				}
			case strings.HasPrefix(name, "tu") && isNum(name[2:]):
				ast.Inspect(x.Body, func(n ast.Node) bool {
					if call, ok := n.(*ast.CallExpr); ok {
						if ix, ok := call.Fun.(*ast.IndexExpr); ok {
							got["utypearg:"+name[2:]] = types.ExprString(ix.Index)
							return false
						}
					}
					return true
				})
			case strings.HasPrefix(name, "ta") && isNum(name[2:]):
				ast.Inspect(x.Body, func(n ast.Node) bool {
					if call, ok := n.(*ast.CallExpr); ok {
						if ix, ok := call.Fun.(*ast.IndexExpr); ok {
							got["typearg:"+name[2:]] = types.ExprString(ix.Index)
							return false
						}
					}
					return true
				})
			}
		}
	}
	return got, nil
}

func isNum(s string) bool {
	if s == "" {
		return false
	}
	for _, r := range s {
		if r < '0' || r > '9' {
			return false
		}
	}
	return true
}

// --- the check ------------------------------------------------------------------------

type Case struct {
	Src  string            `json:"src"`
	Want map[string]string `json:"want"`
}

var seq int

func checkWith(e *vt.Env, fc string, c Case) (bad []string, err error) {
	seq++
	dir := filepath.Join(e.Scratch, fmt.Sprintf("w%d", seq%4))
	os.MkdirAll(dir, 0o755)
	os.Remove(filepath.Join(dir, "gen_ty.go"))
	if err := os.WriteFile(filepath.Join(dir, "ty.fo"), []byte(c.Src), 0o644); err != nil {
		return nil, err
	}
	r := pipeline.RunFC(fc, dir, 120*time.Second, filepath.Join(e.Repo, "pkg", "pkg_all.foi"), "ty.fo")
	if r.TimedOut {
		return nil, fmt.Errorf("fc timed out")
	}
	if r.Exit != 0 {
		return []string{"*"}, fmt.Errorf("fc rejects documented type expressions: %s", pipeline.Clip(r.Combined(), 500))
	}
	b, rerr := os.ReadFile(filepath.Join(dir, "gen_ty.go"))
	if rerr != nil {
		return []string{"*"}, fmt.Errorf("exit 0 but no gen_ty.go")
	}
	got, xerr := extract(string(b))
	if xerr != nil {
		return []string{"*"}, xerr
	}
	var msgs []string
	var keys []string
	for k := range c.Want {
		keys = append(keys, k)
	}
	sort.Strings(keys)
	for _, k := range keys {
		if got[k] != c.Want[k] {
			bad = append(bad, k)
			msgs = append(msgs, fmt.Sprintf("%s: emitted Go type %q, documented mapping gives %q", k, got[k], c.Want[k]))
		}
	}
	if len(bad) > 0 {
		if len(msgs) > 6 {
			msgs = append(msgs[:6], fmt.Sprintf("… %d more", len(msgs)-6))
		}
		return bad, fmt.Errorf("%s", strings.Join(msgs, "\n"))
	}
	return nil, nil
}

func check(c Case) error {
	e := vt.Get()
	if _, err := checkWith(e, e.FC, c); err != nil {
		return fmt.Errorf("%v\nsource:\n%s", err, pipeline.Clip(c.Src, 2500))
	}
	if e.FCB != "" {
		if _, err := checkWith(e, e.FCB, c); err != nil {
			return fmt.Errorf("(compiler regenerated from fc/*.fo) %v\nsource:\n%s", err, pipeline.Clip(c.Src, 2500))
		}
	}
	return nil
}

func allPos() map[string]bool {
	m := map[string]bool{}
	for _, p := range positions {
		m[p] = true
	}
	return m
}

// runChunk checks a chunk of expressions in one file; on failure it narrows
// to single-expression files so that the saved case is small.
func runChunk(t *testing.T, e *vt.Env, test string, exprs []Ty, pos map[string]bool) {
	src, want := render(exprs, pos)
	c := Case{Src: src, Want: want}
	bad, err := checkWith(e, e.FC, c)
	if err == nil && e.FCB != "" {
		bad, err = checkWith(e, e.FCB, c)
	}
	if err != nil {
		if len(bad) > 0 && bad[0] != "*" {
			for _, k := range bad {
				var idx int
				fmt.Sscanf(k[strings.IndexByte(k, ':')+1:], "%d", &idx)
				s1, w1 := render([]Ty{exprs[idx]}, pos)
				single := Case{Src: s1, Want: w1}
				e.Check(t, "types", single, func() error { return check(single) })
			}
		} else {
			for _, x := range exprs {
				s1, w1 := render([]Ty{x}, pos)
				single := Case{Src: s1, Want: w1}
				e.Check(t, "types", single, func() error { return check(single) })
			}
		}
		// singles pass, the chunk does not
		e.Check(t, "types", c, func() error { return check(c) })
	}
	npos := len(pos)
	for _, x := range exprs {
		set := map[string]bool{}
		x.kinds(set)
		labels := []string{fmt.Sprintf("%d constructors", x.constructors())}
		for k := range set {
			labels = append(labels, k)
		}
		e.RecordN(test, vt.Hash(x.src(0), fmt.Sprint(npos)), nontrivial(x), labels, npos, func() any {
			return map[string]any{"type_expression": x.src(0), "go_type": x.goType(), "positions": keysOf(pos)}
		})
	}
}

func keysOf(m map[string]bool) []string {
	var out []string
	for k := range m {
		out = append(out, k)
	}
	sort.Strings(out)
	return out
}

func TestTypesExhaustive(t *testing.T) {
	e := vt.Get()
	defer e.Flush()
	if e.FC == "" {
		t.Skip("needs the orchestrator (VERIF_FC)")
	}
	type part struct {
		name  string
		exprs []Ty
		pos   map[string]bool
	}
	fm := map[int][]Ty{}
	rm := map[int][]Ty{}
	full0, full1 := enum(0, atomsOf(fullAtoms), fm), enum(1, atomsOf(fullAtoms), fm)
	red2 := enum(2, atomsOf(reducedAtoms), rm)
	parts := []part{
		{"<=1 constructor, full atom set, all 6 positions", append(append([]Ty{}, full0...), full1...), allPos()},
		{"<=1 constructor, full atom set, record-field and payload positions of an and-group that declares the user types it mentions later (forward references)", append(append([]Ty{}, full0...), full1...), map[string]bool{"field": true, "payload": true, "fwd": true}},
	}
	if e.Thorough() {
		parts = append(parts, part{"2 constructors, reduced atom set {int,string,ext.Thing}, all 6 positions", red2, allPos()})
		red3 := enum(3, atomsOf([]string{"int", "ext.Thing"}), map[int][]Ty{})
		parts = append(parts, part{"3 constructors, atom set {int,ext.Thing}, record-field position", red3, map[string]bool{"field": true}})
	} else {
		parts = append(parts, part{"2 constructors, reduced atom set {int,string,ext.Thing}, record-field position", red2, map[string]bool{"field": true}})
	}
	const chunk = 120
	ci := 0
	for _, p := range parts {
		step := chunk
		if p.pos["fwd"] {
			// fc allots 100 placeholders for the forward references of one type statement (a capacity
			// limit with its own diagnostic): <= 3 user types per expression x 2 positions x 14 = 84
			step = 14
		}
		for start := 0; start < len(p.exprs); start += step {
			ci++
			if ci%e.NShards != e.Shard {
				continue
			}
			end := min(start+step, len(p.exprs))
			runChunk(t, e, "TestTypesExhaustive", p.exprs[start:end], p.pos)
		}
		e.Meta("TestTypesExhaustive", map[string]any{"exhaustive": true, "domain": p.name, "expressions": len(p.exprs)})
	}
}

// --- sampled: depth 3, redundant parentheses ---------------------------------------------

func genTy(t *rapid.T, depth int) Ty {
	if depth == 0 || rapid.IntRange(0, 3).Draw(t, "leaf") == 0 {
		ty := Ty{K: "atom", Name: rapid.SampledFrom(fullAtoms).Draw(t, "atom")}
		if rapid.IntRange(0, 9).Draw(t, "atomParen") == 0 {
			ty.Extra = 1
		}
		return ty
	}
	c := ctors[rapid.IntRange(0, len(ctors)-1).Draw(t, "ctor")]
	kids := make([]Ty, c.arity)
	for i := range kids {
		kids[i] = genTy(t, depth-1)
	}
	ty := c.mk(kids)
	if rapid.IntRange(0, 5).Draw(t, "paren") == 0 {
		ty.Extra = rapid.IntRange(1, 2).Draw(t, "nparen")
	}
	return ty
}

func TestTypesSampled(t *testing.T) {
	e := vt.Get()
	defer e.Flush()
	if e.FC == "" {
		t.Skip("needs the orchestrator (VERIF_FC)")
	}
	rapid.Check(t, func(rt *rapid.T) {
		n := rapid.IntRange(1, 4).Draw(rt, "n")
		var exprs []Ty
		for i := 0; i < n; i++ {
			exprs = append(exprs, genTy(rt, 3))
		}
		src, want := render(exprs, allPos())
		c := Case{Src: src, Want: want}
		for _, x := range exprs {
			set := map[string]bool{}
			x.kinds(set)
			labels := []string{fmt.Sprintf("%d constructors", x.constructors())}
			for k := range set {
				labels = append(labels, k)
			}
			e.RecordN("TestTypesSampled", vt.Hash(x.src(0)), nontrivial(x), labels, 5, func() any {
				return map[string]any{"type_expression": x.src(0), "go_type": x.goType()}
			})
		}
		e.Check(rt, "types", c, func() error { return check(c) })
	})
}

func TestReplay(t *testing.T) {
	e := vt.Get()
	e.RunReplay(t, map[string]func(json.RawMessage) error{
		"types": vt.Handler(check),
	})
}
