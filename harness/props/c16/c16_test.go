// C16: fc always terminates with either complete output or a diagnostic.
package c16

import (
	"encoding/json"
	"fmt"
	"os"
	"path/filepath"
	"regexp"
	"sort"
	"strings"
	"testing"
	"time"

	"pgregory.net/rapid"

	"verif/harness/lang"
	"verif/harness/pipeline"
	"verif/harness/vt"
)

// File of a case. Content is raw bytes (base64 in JSON).
type File struct {
	Name    string `json:"name"`
	Content []byte `json:"content"`
	Text    string `json:"text_preview,omitempty"` // informational, lossy
}

// Case is one fc invocation.
type Case struct {
	Files   []File   `json:"files"`
	Args    []string `json:"args"`             // relative names; "@foi" = the snapshot's pkg/pkg_all.foi
	PreGen  string   `json:"pregen,omitempty"` // state of the destination of the LAST .fo argument: "" (sentinel) | dir | dangling | devfull
	Mutator []string `json:"mutators,omitempty"`
	Seed    string   `json:"seed,omitempty"`
	// MustContain: text that the gen file of the LAST .fo argument has to contain when fc exits 0 (used
	// where the input is built by the harness and ends with a known definition: "completely written")
	MustContain string `json:"must_contain,omitempty"`
}

const sentinel = "// SENTINEL\n"

var fatalMarks = []string{"fatal error:", "goroutine stack exceeds", "out of memory", "runtime: out of memory", "stack overflow", "SIGSEGV", "unexpected signal"}

var reProgress = regexp.MustCompile(`(?m)^transpile: .*$`)

// time limits of one fc run: a run that exceeds the first is repeated alone under the second before it
// counts as non-termination
var firstLimit, confirmLimit = 15 * time.Second, 120 * time.Second

type verdict struct {
	outcome string // accept | diagnostic | go-panic-diagnostic
}

var seq int

func genPath(dir, arg string) string {
	return filepath.Join(dir, filepath.Dir(arg), "gen_"+strings.TrimSuffix(filepath.Base(arg), ".fo")+".go")
}

func prepare(e *vt.Env, c Case, dir string) (args []string, foArgs []string, err error) {
	os.RemoveAll(dir)
	if err := os.MkdirAll(dir, 0o755); err != nil {
		return nil, nil, err
	}
	for _, f := range c.Files {
		p := filepath.Join(dir, f.Name)
		os.MkdirAll(filepath.Dir(p), 0o755)
		if err := os.WriteFile(p, f.Content, 0o644); err != nil {
			return nil, nil, err
		}
	}
	for _, a := range c.Args {
		if a == "@foi" {
			args = append(args, filepath.Join(e.Repo, "pkg", "pkg_all.foi"))
			continue
		}
		args = append(args, a)
		if strings.HasSuffix(a, ".fo") {
			foArgs = append(foArgs, a)
		}
	}
	for i, a := range foArgs {
		g := genPath(dir, a)
		os.MkdirAll(filepath.Dir(g), 0o755)
		last := i == len(foArgs)-1
		switch {
		case last && c.PreGen == "dir":
			os.MkdirAll(g, 0o755)
		case last && c.PreGen == "dangling":
			os.Symlink(filepath.Join(dir, "no", "such", "dir", "x.go"), g)
		case last && c.PreGen == "devfull":
			os.Symlink("/dev/full", g)
		default:
			os.WriteFile(g, []byte(sentinel), 0o644)
		}
	}
	return args, foArgs, nil
}

func runOnce(e *vt.Env, fc string, c Case, dir string, timeout time.Duration) (pipeline.Result, []string, error) {
	args, foArgs, err := prepare(e, c, dir)
	if err != nil {
		return pipeline.Result{}, nil, err
	}
	r := pipeline.RunFC(fc, dir, timeout, args...)
	return r, foArgs, nil
}

func describe(c Case) string {
	var sb strings.Builder
	fmt.Fprintf(&sb, "fc %s", strings.Join(c.Args, " "))
	if c.PreGen != "" {
		fmt.Fprintf(&sb, "   [destination of the last .fo: %s]", c.PreGen)
	}
	for _, f := range c.Files {
		fmt.Fprintf(&sb, "\n--- %s (%d bytes)\n%s", f.Name, len(f.Content), pipeline.Clip(string(f.Content), 1500))
	}
	return sb.String()
}

func checkWith(e *vt.Env, fc string, c Case) (verdict, error) {
	seq++
	base := filepath.Join(e.Scratch, fmt.Sprintf("r%d", seq%4))
	dir := filepath.Join(base, "a")
	r, foArgs, err := runOnce(e, fc, c, dir, firstLimit)
	if err != nil {
		return verdict{}, err
	}
	if r.TimedOut {
		// confirm alone with a much larger limit before it counts as non-termination
		r, foArgs, err = runOnce(e, fc, c, dir, confirmLimit)
		if err != nil {
			return verdict{}, err
		}
		if r.TimedOut {
			return verdict{}, fmt.Errorf("fc does not terminate (killed after %.0f s; ordinary runs take milliseconds)\n%s", confirmLimit.Seconds(), describe(c))
		}
	}
	if r.Err != nil {
		return verdict{}, fmt.Errorf("harness: cannot start fc: %v", r.Err)
	}
	out := r.Combined()
	if r.Signal != "" {
		return verdict{}, fmt.Errorf("fc was killed by signal %s\n%s\noutput: %s", r.Signal, describe(c), pipeline.Clip(out, 600))
	}
	for _, m := range fatalMarks {
		if strings.Contains(out, m) {
			return verdict{}, fmt.Errorf("fc died of a Go runtime fatal error (%q), exit %d\n%s\noutput: %s", m, r.Exit, describe(c), pipeline.Clip(out, 600))
		}
	}
	if r.Exit == 0 {
		// every requested gen file must have been written completely
		for i, a := range foArgs {
			g := genPath(dir, a)
			last := i == len(foArgs)-1
			if last && c.PreGen != "" {
				return verdict{}, fmt.Errorf("fc exits 0 although %s cannot be written (destination is %s)\n%s\noutput: %s", filepath.Base(g), c.PreGen, describe(c), pipeline.Clip(out, 400))
			}
			b, err := os.ReadFile(g)
			if err != nil {
				return verdict{}, fmt.Errorf("fc exits 0 but %s does not exist\n%s", filepath.Base(g), describe(c))
			}
			if string(b) == sentinel {
				return verdict{}, fmt.Errorf("fc exits 0 but %s was not written (still the sentinel)\n%s", filepath.Base(g), describe(c))
			}
			if last && c.MustContain != "" && !strings.Contains(string(b), c.MustContain) {
				return verdict{}, fmt.Errorf("fc exits 0 but %s is incomplete: the translation of the last definition of the input (%q) is missing\n%s", filepath.Base(g), c.MustContain, describe(c))
			}
		}
		// completeness: a second run in another directory writes the same bytes - over whatever was there
		// before: half of the time the destination holds an OLDER, LONGER version of the output (the first
		// run's bytes followed by a stale tail), which a complete write has to replace
		dir2 := filepath.Join(base, "b")
		args2, _, err := prepare(e, c, dir2)
		if err != nil {
			return verdict{}, err
		}
		staleTail := seq%2 == 0
		if staleTail {
			for _, a := range foArgs {
				b1, _ := os.ReadFile(genPath(dir, a))
				os.WriteFile(genPath(dir2, a), append(append([]byte{}, b1...), []byte("\n// stale tail of an older, longer version\nfunc staleTail() {}\n")...), 0o644)
			}
		}
		r2 := pipeline.RunFC(fc, dir2, 60*time.Second, args2...)
		if r2.Exit != 0 && !r2.TimedOut {
			return verdict{}, fmt.Errorf("fc exits 0 on the first run and %d on an identical second run\n%s", r2.Exit, describe(c))
		}
		for _, a := range foArgs {
			b1, _ := os.ReadFile(genPath(dir, a))
			b2, _ := os.ReadFile(genPath(dir2, a))
			if string(b1) != string(b2) {
				if staleTail && strings.HasPrefix(string(b2), string(b1)) {
					return verdict{}, fmt.Errorf("fc exits 0 but %s still holds the tail of the older, longer file that was there before (not completely written)\n%s", filepath.Base(genPath(dir, a)), describe(c))
				}
				return verdict{}, fmt.Errorf("two runs on the same input wrote different %s (incomplete or nondeterministic write)\n%s", filepath.Base(genPath(dir, a)), describe(c))
			}
		}
		return verdict{outcome: "accept"}, nil
	}
	// non-zero exit: a diagnostic must have been printed ...
	diag := strings.TrimSpace(reProgress.ReplaceAllString(out, ""))
	if diag == "" {
		return verdict{}, fmt.Errorf("fc exits %d without printing any diagnostic\n%s\noutput: %q", r.Exit, describe(c), out)
	}
	// ... and nothing written for the offending file (nor for any file after
	// it, which fc never reached). The offending file is the one named by the
	// last progress line; if fc prints no progress lines, only single-file
	// invocations can be decided.
	offIdx := -1
	if ms := reProgress.FindAllString(out, -1); len(ms) > 0 {
		off := strings.TrimPrefix(ms[len(ms)-1], "transpile: ")
		for i, a := range c.Args {
			if a == off || (a == "@foi" && strings.HasSuffix(off, "pkg_all.foi")) {
				offIdx = i
			}
		}
	}
	nFo := 0
	for i, a := range c.Args {
		if !strings.HasSuffix(a, ".fo") {
			continue
		}
		nFo++
		isLast := nFo == len(foArgs)
		if isLast && c.PreGen != "" {
			continue
		}
		if offIdx >= 0 && i < offIdx {
			continue // transpiled before the failure
		}
		if offIdx < 0 && len(foArgs) > 1 {
			continue
		}
		b, err := os.ReadFile(genPath(dir, a))
		if err != nil || string(b) != sentinel {
			return verdict{}, fmt.Errorf("fc exits %d (failing at argument %d) but %s was written or removed: now %q\n%s\noutput: %s", r.Exit, offIdx, filepath.Base(genPath(dir, a)), pipeline.Clip(string(b), 200), describe(c), pipeline.Clip(out, 400))
		}
	}
	if strings.Contains(out, "goroutine ") && strings.Contains(out, "panic:") {
		return verdict{outcome: "go-panic-diagnostic"}, nil
	}
	return verdict{outcome: "diagnostic"}, nil
}

func check(c Case) error {
	e := vt.Get()
	if _, err := checkWith(e, e.FC, c); err != nil {
		return err
	}
	if e.FCB != "" {
		if _, err := checkWith(e, e.FCB, c); err != nil {
			return fmt.Errorf("(compiler regenerated from fc/*.fo) %v", err)
		}
	}
	return nil
}

// --- seeds ------------------------------------------------------------------------

type seedFile struct {
	name string
	text string
}

var seedsCache []seedFile

func seeds(e *vt.Env) []seedFile {
	if seedsCache != nil {
		return seedsCache
	}
	var out []seedFile
	add := func(glob string) {
		ms, _ := filepath.Glob(glob)
		sort.Strings(ms)
		for _, m := range ms {
			b, err := os.ReadFile(m)
			if err == nil && len(b) > 0 && len(b) < 6000 {
				out = append(out, seedFile{filepath.Base(m), string(b)})
			}
		}
	}
	add(filepath.Join(e.Repo, "samples", "*.fo"))
	add(filepath.Join(e.Repo, "cmd", "build_sample_md", "*.fo"))
	add(filepath.Join(e.VerifDir, "corpus", "seeds", "*.fo"))
	sort.SliceStable(out, func(i, j int) bool { return len(out[i].text) < len(out[j].text) })
	seedsCache = out
	return out
}

// --- mutators ------------------------------------------------------------------------

var reTok = regexp.MustCompile("[A-Za-z_][A-Za-z0-9_]*|[0-9]+|\"(?:\\\\.|[^\"\\\\\n])*\"|`[^`]*`|[ \t]+|\n|->|\\|>|<>|<=|>=|&&|\\|\\||.")

func tokens(s string) []string { return reTok.FindAllString(s, -1) }

func isSpaceTok(t string) bool { return strings.TrimSpace(t) == "" }

var selfRef = []string{
	"let selfapp x = x x\n",
	"let retself x = retself\n",
	"let fff f = f f f\n",
	"let pipeself a = (a, a) |> a\n",
	"let nestself a = [a; [a]]\n",
	"type SelfRec = {Next: SelfRec; V: int}\n",
	"type TreeRec = {Kids: []TreeRec; V: int}\n",
	"type RA = {B: RB}\nand RB = {A: RA}\n",
	"type UA =\n  | UAone of UB\n  | UAnone\nand UB = {Back: UA}\n",
	"type GSelf<T> = {Me: GSelf<T>; V: T}\n",
	"type SU =\n  | SUmore of SU\n  | SUend\n",
	"let rec loop x = loop x\n",
	"let omega f = f (fun x -> f x x)\n",
	"let twice f x = f (f x)\nlet selftwice () = twice twice\n",
	"let idd x = x\nlet apself () = idd idd idd 3\n",
	"let tupself a =\n  let (x, y) = a\n  (a, x)\n",
	"let recfield r = r.F r\n",
	"type PFun = {F: PFun->int}\n",
}

var openers = []string{"/*", "\"", "`", "$\"", "$`", "{", "(", "[", "//", "/* x", "// tail comment", "\"\\", "$\"{", "$\"{x", "'", "<", "|", "->", "match", "fun", "let", "if", "(*"}
var rawBytes = []string{"\x00", "\xff", "\r", "\r\n", "\t", "\x1b", "\xc3", "\xe2\x82", " ", "\ufeff", "\\", "\x7f"}

type mutation struct {
	kind string
	desc string
}

// mutate applies one mutation drawn from rt to s.
func mutate(rt *rapid.T, s string, other string) (string, string) {
	kinds := []string{"truncate", "delete-token", "dup-token", "swap-tokens", "replace-token", "indent", "tab-indent", "opener", "opener-at-end",
		"raw-bytes", "delete-line", "dup-line", "swap-lines", "self-ref", "strip-final-newline", "splice-other", "delete-span"}
	k := rapid.SampledFrom(kinds).Draw(rt, "mutator")
	toks := tokens(s)
	lines := strings.SplitAfter(s, "\n")
	pickTok := func(label string) int {
		var idx []int
		for i, t := range toks {
			if !isSpaceTok(t) {
				idx = append(idx, i)
			}
		}
		if len(idx) == 0 {
			return -1
		}
		return idx[rapid.IntRange(0, len(idx)-1).Draw(rt, label)]
	}
	switch k {
	case "truncate":
		if len(s) == 0 {
			return s, k
		}
		return s[:rapid.IntRange(0, len(s)-1).Draw(rt, "at")], k
	case "delete-token":
		i := pickTok("tok")
		if i < 0 {
			return s, k
		}
		return strings.Join(append(append([]string{}, toks[:i]...), toks[i+1:]...), ""), k + ":" + toks[i]
	case "dup-token":
		i := pickTok("tok")
		if i < 0 {
			return s, k
		}
		out := append(append(append([]string{}, toks[:i+1]...), " ", toks[i]), toks[i+1:]...)
		return strings.Join(out, ""), k + ":" + toks[i]
	case "swap-tokens":
		i, j := pickTok("tokA"), pickTok("tokB")
		if i < 0 || j < 0 {
			return s, k
		}
		out := append([]string{}, toks...)
		out[i], out[j] = out[j], out[i]
		return strings.Join(out, ""), k
	case "replace-token":
		i, j := pickTok("tokA"), pickTok("tokB")
		if i < 0 || j < 0 {
			return s, k
		}
		out := append([]string{}, toks...)
		out[i] = toks[j]
		return strings.Join(out, ""), k + ":" + toks[i] + "->" + toks[j]
	case "indent":
		if len(lines) == 0 {
			return s, k
		}
		i := rapid.IntRange(0, len(lines)-1).Draw(rt, "line")
		d := rapid.IntRange(-4, 4).Draw(rt, "delta")
		l := lines[i]
		if d >= 0 {
			l = strings.Repeat(" ", d) + l
		} else {
			for n := 0; n < -d && strings.HasPrefix(l, " "); n++ {
				l = l[1:]
			}
		}
		out := append([]string{}, lines...)
		out[i] = l
		return strings.Join(out, ""), k
	case "tab-indent":
		if len(lines) == 0 {
			return s, k
		}
		i := rapid.IntRange(0, len(lines)-1).Draw(rt, "line")
		out := append([]string{}, lines...)
		trim := strings.TrimLeft(out[i], " ")
		out[i] = "\t" + trim
		return strings.Join(out, ""), k
	case "opener":
		at := rapid.IntRange(0, len(s)).Draw(rt, "at")
		o := rapid.SampledFrom(openers).Draw(rt, "opener")
		return s[:at] + o + s[at:], k + ":" + o
	case "opener-at-end":
		o := rapid.SampledFrom(openers).Draw(rt, "opener")
		t := s
		if rapid.Bool().Draw(rt, "stripNL") {
			t = strings.TrimRight(t, "\n")
		}
		nl := ""
		if rapid.Bool().Draw(rt, "ownLine") {
			nl = "\n"
		}
		return t + nl + o, k + ":" + o
	case "raw-bytes":
		at := rapid.IntRange(0, len(s)).Draw(rt, "at")
		o := rapid.SampledFrom(rawBytes).Draw(rt, "bytes")
		return s[:at] + o + s[at:], fmt.Sprintf("%s:%q", k, o)
	case "delete-line":
		if len(lines) == 0 {
			return s, k
		}
		i := rapid.IntRange(0, len(lines)-1).Draw(rt, "line")
		return strings.Join(append(append([]string{}, lines[:i]...), lines[i+1:]...), ""), k
	case "dup-line":
		if len(lines) == 0 {
			return s, k
		}
		i := rapid.IntRange(0, len(lines)-1).Draw(rt, "line")
		out := append(append(append([]string{}, lines[:i+1]...), lines[i]), lines[i+1:]...)
		return strings.Join(out, ""), k
	case "swap-lines":
		if len(lines) < 2 {
			return s, k
		}
		i, j := rapid.IntRange(0, len(lines)-1).Draw(rt, "lineA"), rapid.IntRange(0, len(lines)-1).Draw(rt, "lineB")
		out := append([]string{}, lines...)
		out[i], out[j] = out[j], out[i]
		return strings.Join(out, ""), k
	case "self-ref":
		sn := rapid.SampledFrom(selfRef).Draw(rt, "snippet")
		t := s
		if !strings.HasSuffix(t, "\n") {
			t += "\n"
		}
		// before `let main` when there is one, else at the end
		if i := strings.Index(t, "\nlet main"); i >= 0 && rapid.Bool().Draw(rt, "beforeMain") {
			return t[:i+1] + "\n" + sn + t[i:], k + ":" + strings.SplitN(sn, "\n", 2)[0]
		}
		return t + "\n" + sn, k + ":" + strings.SplitN(sn, "\n", 2)[0]
	case "strip-final-newline":
		return strings.TrimRight(s, "\n"), k
	case "splice-other":
		// a random slice of another seed inserted at a random place
		if len(other) == 0 {
			return s, k
		}
		a := rapid.IntRange(0, len(other)-1).Draw(rt, "from")
		b := rapid.IntRange(a, min(len(other), a+80)).Draw(rt, "to")
		at := rapid.IntRange(0, len(s)).Draw(rt, "at")
		return s[:at] + other[a:b] + s[at:], k
	case "delete-span":
		if len(s) < 2 {
			return s, k
		}
		a := rapid.IntRange(0, len(s)-1).Draw(rt, "from")
		b := rapid.IntRange(a, min(len(s), a+40)).Draw(rt, "to")
		return s[:a] + s[b:], k
	}
	return s, k
}

func firstDefEnd(s string) int {
	// offset of the second top-level let/type (the first definition is complete there)
	n := 0
	off := 0
	for _, l := range strings.SplitAfter(s, "\n") {
		if strings.HasPrefix(l, "let ") || strings.HasPrefix(l, "type ") {
			n++
			if n == 2 {
				return off
			}
		}
		off += len(l)
	}
	return len(s)
}

func commonPrefix(a, b string) int {
	n := min(len(a), len(b))
	for i := 0; i < n; i++ {
		if a[i] != b[i] {
			return i
		}
	}
	return n
}

func TestMutants(t *testing.T) {
	e := vt.Get()
	defer e.Flush()
	if e.FC == "" {
		t.Skip("needs the orchestrator (VERIF_FC)")
	}
	sd := seeds(e)
	rapid.Check(t, func(rt *rapid.T) {
		si := rapid.IntRange(0, len(sd)-1).Draw(rt, "seed")
		s := sd[si]
		if rapid.IntRange(0, 3).Draw(rt, "generatedSeed") == 0 {
			// a freshly generated program of the full profile as the seed
			p := lang.Full
			p.MaxUnits = 2
			g := lang.NewGen(rt, p)
			s = seedFile{name: "generated.fo", text: lang.Print(g.GenProgram(), lang.Canonical{})}
		}
		other := sd[rapid.IntRange(0, len(sd)-1).Draw(rt, "otherSeed")].text
		text := s.text
		var muts []string
		n := rapid.IntRange(1, 3).Draw(rt, "nmut")
		for i := 0; i < n; i++ {
			var d string
			text, d = mutate(rt, text, other)
			muts = append(muts, d)
		}
		c := Case{Files: []File{{Name: s.name, Content: []byte(text), Text: pipeline.Clip(text, 400)}}, Args: []string{"@foi", s.name}, Mutator: muts, Seed: s.name}
		var v verdict
		e.Check(rt, "fc-run", c, func() error {
			var err error
			v, err = checkWith(e, e.FC, c)
			if err == nil && e.FCB != "" {
				_, err = checkWith(e, e.FCB, c)
			}
			return err
		})
		labels := []string{"outcome:" + v.outcome}
		if s.name == "generated.fo" {
			labels = append(labels, "seed: generated program")
		}
		for _, m := range muts {
			labels = append(labels, "mutator:"+strings.SplitN(m, ":", 2)[0])
		}
		changedAt := commonPrefix(s.text, text)
		nt := false
		if v.outcome == "accept" {
			nt = text != s.text
		} else {
			nt = changedAt >= firstDefEnd(s.text)
		}
		e.Record("TestMutants", vt.Hash(text), nt, labels, func() any {
			return map[string]any{"seed": s.name, "mutators": muts, "outcome": v.outcome, "content": pipeline.Clip(text, 600)}
		})
	})
}

// every truncation offset of the smallest seeds
func TestTruncations(t *testing.T) {
	e := vt.Get()
	defer e.Flush()
	if e.FC == "" {
		t.Skip("needs the orchestrator (VERIF_FC)")
	}
	sd := seeds(e)
	nSeeds := e.Pick(4, 14)
	if nSeeds > len(sd) {
		nSeeds = len(sd)
	}
	idx := 0
	total := 0
	for _, s := range sd[:nSeeds] {
		for off := 0; off < len(s.text); off++ {
			idx++
			if idx%e.NShards != e.Shard {
				continue
			}
			total++
			text := s.text[:off]
			c := Case{Files: []File{{Name: s.name, Content: []byte(text), Text: pipeline.Clip(text, 300)}}, Args: []string{"@foi", s.name}, Mutator: []string{fmt.Sprintf("truncate@%d", off)}, Seed: s.name}
			var v verdict
			e.Check(t, "fc-run", c, func() error {
				var err error
				v, err = checkWith(e, e.FC, c)
				return err
			})
			nt := v.outcome == "accept" || off >= firstDefEnd(s.text)
			e.Record("TestTruncations", vt.Hash(text, s.name), nt, []string{"outcome:" + v.outcome, "mutator:truncate-sweep"}, func() any {
				return map[string]any{"seed": s.name, "offset": off, "outcome": v.outcome}
			})
		}
	}
	var names []string
	for _, s := range sd[:nSeeds] {
		names = append(names, s.name)
	}
	e.Meta("TestTruncations", map[string]any{"exhaustive": true, "domain": "every truncation offset of the seeds " + strings.Join(names, ", ")})
}

// argument-list and output-path faults, and the self-referential family alone
func TestFaults(t *testing.T) {
	e := vt.Get()
	defer e.Flush()
	if e.FC == "" {
		t.Skip("needs the orchestrator (VERIF_FC)")
	}
	sd := seeds(e)
	good := sd[0]
	for _, s := range sd {
		if s.name == "pipe.fo" {
			good = s
		}
	}
	var cases []Case
	gf := File{Name: good.name, Content: []byte(good.text)}
	// output-path faults
	for _, pg := range []string{"dir", "dangling", "devfull"} {
		cases = append(cases, Case{Files: []File{gf}, Args: []string{"@foi", good.name}, PreGen: pg, Mutator: []string{"output-fault:" + pg}})
		cases = append(cases, Case{Files: []File{gf, {Name: "second.fo", Content: []byte("package main\n\nlet second () = 2\n")}}, Args: []string{"@foi", good.name, "second.fo"}, PreGen: pg, Mutator: []string{"output-fault-second-file:" + pg}})
	}
	// argument faults
	cases = append(cases,
		Case{Args: []string{}, Mutator: []string{"no-arguments"}},
		Case{Args: []string{"missing.fo"}, Mutator: []string{"missing-input"}},
		Case{Files: []File{gf}, Args: []string{"@foi", good.name, "missing.fo"}, Mutator: []string{"missing-second-input"}},
		Case{Files: []File{{Name: "adir.fo/keep", Content: []byte("x")}}, Args: []string{"adir.fo"}, Mutator: []string{"directory-as-input"}},
		Case{Files: []File{{Name: "empty.fo", Content: []byte("")}}, Args: []string{"empty.fo"}, Mutator: []string{"empty-file"}},
		Case{Files: []File{{Name: "nl.fo", Content: []byte("\n\n\n")}}, Args: []string{"nl.fo"}, Mutator: []string{"newlines-only"}},
		Case{Files: []File{{Name: "pk.fo", Content: []byte("package main\n")}}, Args: []string{"pk.fo"}, Mutator: []string{"package-only"}},
		Case{Files: []File{{Name: "bad.fo", Content: []byte("package main\n\nlet f x = +\n")}, gf}, Args: []string{"@foi", "bad.fo", good.name}, Mutator: []string{"fo-after-failing-fo"}},
		Case{Files: []File{{Name: "decl.foi", Content: []byte("package_info m =\n  let F: int->int\n")}}, Args: []string{"decl.foi"}, Mutator: []string{"foi-only"}},
	)
	// arguments whose name is neither *.fo nor *.foi, next to ordinary ones: whatever fc does with them, the
	// .fo arguments of the same invocation are still asked for (exit 0 only with their gen files written)
	helper := []byte("package main\n\nlet helperFn () = 5\n")
	for _, odd := range []string{"helper.FO", "noext", "x.fo.txt", "dotted.name"} {
		cases = append(cases,
			Case{Files: []File{gf, {Name: odd, Content: helper}}, Args: []string{"@foi", good.name, odd}, Mutator: []string{"odd-argument-name-last:" + odd}},
			Case{Files: []File{gf, {Name: odd, Content: helper}}, Args: []string{"@foi", odd, good.name}, Mutator: []string{"odd-argument-name-first:" + odd}},
			Case{Files: []File{{Name: odd, Content: []byte("package main\n\nlet f x = +\n")}}, Args: []string{"@foi", odd}, Mutator: []string{"odd-argument-name-broken-content:" + odd}})
	}
	cases = append(cases,
		Case{Files: []File{gf}, Args: []string{"@foi", good.name, ""}, Mutator: []string{"empty-string-argument"}},
		Case{Files: []File{gf, {Name: "src/keep", Content: []byte("x")}}, Args: []string{"@foi", good.name, "src/"}, Mutator: []string{"directory-argument-with-slash"}},
		Case{Files: []File{gf}, Args: []string{"@foi", good.name, good.name}, Mutator: []string{"same-file-twice"}},
	)
	// the self-referential family, each alone and after a valid program
	for _, sn := range selfRef {
		body := "package main\n\n" + sn
		cases = append(cases, Case{Files: []File{{Name: "self.fo", Content: []byte(body)}}, Args: []string{"@foi", "self.fo"}, Mutator: []string{"self-ref-alone:" + strings.SplitN(sn, "\n", 2)[0]}})
		use := body + "\nlet main () =\n  ()\n"
		cases = append(cases, Case{Files: []File{{Name: "self.fo", Content: []byte(use)}}, Args: []string{"@foi", "self.fo"}, Mutator: []string{"self-ref-with-main:" + strings.SplitN(sn, "\n", 2)[0]}})
	}
	// comment / literal left open at the end of file, with and without newline
	for _, o := range openers {
		for _, tail := range []string{"", "\n", " x", " x\n"} {
			body := "package main\n\nlet f () = 1\n" + o + tail
			cases = append(cases, Case{Files: []File{{Name: "open.fo", Content: []byte(body)}}, Args: []string{"open.fo"}, Mutator: []string{"open-at-eof:" + o}})
		}
	}
	for i, c := range cases {
		if i%e.NShards != e.Shard {
			continue
		}
		var v verdict
		cc := c
		e.Check(t, "fc-run", cc, func() error {
			var err error
			v, err = checkWith(e, e.FC, cc)
			return err
		})
		e.Record("TestFaults", vt.HashJSON(cc), true, []string{"outcome:" + v.outcome, "fault:" + strings.SplitN(cc.Mutator[0], ":", 2)[0]}, func() any {
			return map[string]any{"args": cc.Args, "pregen": cc.PreGen, "what": cc.Mutator, "outcome": v.outcome}
		})
	}
	e.Meta("TestFaults", map[string]any{"exhaustive": true, "domain": "the listed argument-list faults, output-path faults, self-referential definitions and unterminated constructs at end of file", "cases": len(cases)})
}

// TestKnown re-runs the reproducer of every recorded finding. The quick tier confirms a timeout with 25 s
// instead of 120 s (the reproducers need hours; a repaired fc needs milliseconds).
func TestKnown(t *testing.T) {
	e := vt.Get()
	defer e.Flush()
	if e.FC == "" {
		t.Skip("needs the orchestrator (VERIF_FC)")
	}
	if e.Shard != 0 {
		return
	}
	if e.Tier != "thorough" {
		old1, old2 := firstLimit, confirmLimit
		firstLimit, confirmLimit = 5*time.Second, 25*time.Second
		defer func() { firstLimit, confirmLimit = old1, old2 }()
	}
	for _, k := range e.KnownFor("C16") {
		b, err := os.ReadFile(filepath.Join(e.VerifDir, k.Reproducer))
		if err != nil {
			t.Fatalf("known finding %s: reproducer missing: %v", k.ID, err)
		}
		var fc vt.FailCase
		if err := json.Unmarshal(b, &fc); err != nil {
			t.Fatalf("known finding %s: %v", k.ID, err)
		}
		var sc ScaleCase
		json.Unmarshal(fc.Case, &sc)
		c, err := sc.toCase()
		if err != nil {
			t.Fatalf("known finding %s: %v", k.ID, err)
		}
		if _, err := checkWith(e, e.FC, c); err != nil {
			vt.PrintKnown(k)
		} else {
			t.Logf("known finding %s no longer reproduces", k.ID)
		}
		e.Record("TestKnown", vt.HashJSON(sc), true, []string{"known finding " + k.ID}, func() any { return sc })
	}
}

func TestReplay(t *testing.T) {
	e := vt.Get()
	e.RunReplay(t, map[string]func(json.RawMessage) error{
		"fc-run": vt.Handler(check),
		"scale":  vt.Handler(checkScale),
	})
}

// --- scale: the same construct repeated or nested N times --------------------------------------------
// Termination and error discipline must not depend on the size of the input: every template is a valid
// (or cleanly rejected) program at small N and is generated with N drawn on a logarithmic scale up to a
// per-template bound at which fc's (polynomial) running time is still far below the time limit. Depths
// of 100,000 and more exhaust the Go stack (known finding D23) and are not generated here.

type scaleTpl struct {
	name string
	max  int
	make func(n int) string
}

func rep(s string, n int) string { return strings.Repeat(s, n) }

var scaleTpls = []scaleTpl{
	{"nested parentheses", 8000, func(n int) string { return "let f () =\n  " + rep("(", n) + "1" + rep(")", n) + "\n" }},
	{"nested slice literals", 400, func(n int) string { return "let f () =\n  " + rep("[", n) + "1" + rep("]", n) + "\n" }},
	{"nested applications", 5000, func(n int) string {
		return "let g (x:int) = x\n\nlet f () =\n  " + rep("g (", n) + "1" + rep(")", n) + "\n"
	}},
	{"nested not", 5000, func(n int) string { return "let f (b:bool) =\n  " + rep("not (", n) + "b" + rep(")", n) + "\n" }},
	{"+ chain", 8000, func(n int) string { return "let f () =\n  1" + rep(" + 1", n) + "\n" }},
	{"string + chain", 8000, func(n int) string { return "let f () =\n  \"a\"" + rep(" + \"a\"", n) + "\n" }},
	{"&& chain", 8000, func(n int) string { return "let f (b:bool) =\n  b" + rep(" && b", n) + "\n" }},
	{"pipe chain", 3000, func(n int) string { return "let id (x:int) = x\n\nlet f () =\n  1" + rep(" |> id", n) + "\n" }},
	{"pipe chain over lines", 3000, func(n int) string { return "let id (x:int) = x\n\nlet f () =\n  1\n" + rep("  |> id\n", n) }},
	{"nested lambdas", 250, func(n int) string { return "let f () =\n  " + rep("fun (x:int) -> ", n) + "1\n" }},
	{"nested if/else", 300, func(n int) string {
		var sb strings.Builder
		sb.WriteString("let f (b:bool) =\n")
		for i := 0; i < n; i++ {
			sb.WriteString(rep("  ", i+1) + "if b then\n")
		}
		sb.WriteString(rep("  ", n+1) + "1\n")
		for i := n - 1; i >= 0; i-- {
			sb.WriteString(rep("  ", i+1) + "else\n" + rep("  ", i+2) + "0\n")
		}
		return sb.String()
	}},
	{"elif chain", 2000, func(n int) string {
		return "let f (x:int) =\n  if x = 0 then\n    0\n" + func() string {
			var sb strings.Builder
			for i := 1; i <= n; i++ {
				fmt.Fprintf(&sb, "  elif x = %d then\n    %d\n", i, i)
			}
			return sb.String()
		}() + "  else\n    -1\n"
	}},
	{"many lets", 20000, func(n int) string {
		var sb strings.Builder
		sb.WriteString("let f () =\n")
		for i := 0; i < n; i++ {
			fmt.Fprintf(&sb, "  let v%d = %d\n", i, i)
		}
		sb.WriteString("  0\n")
		return sb.String()
	}},
	{"many functions", 20000, func(n int) string {
		var sb strings.Builder
		for i := 0; i < n; i++ {
			fmt.Fprintf(&sb, "let f%d () = %d\n\n", i, i)
		}
		return sb.String()
	}},
	{"call chain through many functions", 3000, func(n int) string {
		var sb strings.Builder
		sb.WriteString("let f0 (x:int) = x\n\n")
		for i := 1; i <= n; i++ {
			fmt.Fprintf(&sb, "let f%d (x:int) = f%d x + 1\n\n", i, i-1)
		}
		return sb.String()
	}},
	{"long slice literal", 50000, func(n int) string { return "let f () =\n  [1" + rep("; 1", n) + "]\n" }},
	{"long tuple (rejected above 3)", 50000, func(n int) string { return "let f () =\n  (1" + rep(", 1", n) + ")\n" }},
	{"long string literal", 2000000, func(n int) string { return "let f () =\n  \"" + rep("x", n) + "\"\n" }},
	{"long raw string literal with newlines", 1000000, func(n int) string { return "let f () =\n  `" + rep("x\n", n) + "`\n" }},
	{"long interpolated literal", 20000, func(n int) string { return "let f (a:int) =\n  $\"" + rep("{a}-", n) + "\"\n" }},
	{"long identifier", 200000, func(n int) string { return "let " + rep("a", n+1) + " () = 1\n" }},
	{"long integer literal", 5000, func(n int) string { return "let f () =\n  1" + rep("0", n) + "\n" }},
	{"long line comment", 2000000, func(n int) string { return "// " + rep("c", n) + "\nlet f () = 1\n" }},
	{"long block comment", 2000000, func(n int) string { return "/* " + rep("c\n", n) + " */\nlet f () = 1\n" }},
	{"many blank lines", 60000, func(n int) string { return "let f () =\n" + rep("\n", n) + "  1\n" }},
	{"trailing spaces", 1000000, func(n int) string { return "let f () =" + rep(" ", n) + "\n  1\n" }},
	{"deep indentation", 100000, func(n int) string { return "let f () =\n" + rep(" ", n+1) + "1\n" }},
	{"many parameters", 90, func(n int) string {
		var sb strings.Builder
		sb.WriteString("let f")
		for i := 0; i <= n; i++ {
			fmt.Fprintf(&sb, " (p%d:int)", i)
		}
		sb.WriteString(" = p0\n")
		return sb.String()
	}},
	{"many un-annotated parameters (rejected above the type-variable limit)", 300, func(n int) string {
		var sb strings.Builder
		sb.WriteString("let f")
		for i := 0; i <= n; i++ {
			fmt.Fprintf(&sb, " p%d", i)
		}
		sb.WriteString(" = p0\n")
		return sb.String()
	}},
	{"record with many fields", 3000, func(n int) string {
		var sb strings.Builder
		sb.WriteString("type R = {F0: int")
		for i := 1; i <= n; i++ {
			fmt.Fprintf(&sb, "; F%d: int", i)
		}
		sb.WriteString("}\n\nlet f (r:R) = r.F0\n")
		return sb.String()
	}},
	{"union with many cases and a full match", 400, func(n int) string {
		var sb strings.Builder
		sb.WriteString("type U =\n")
		for i := 0; i <= n; i++ {
			fmt.Fprintf(&sb, "| K%d of int\n", i)
		}
		sb.WriteString("\nlet f (u:U) =\n  match u with\n")
		for i := 0; i <= n; i++ {
			fmt.Fprintf(&sb, "  | K%d v -> v + %d\n", i, i)
		}
		return sb.String()
	}},
	{"string match with many arms", 3000, func(n int) string {
		var sb strings.Builder
		sb.WriteString("let f (s:string) =\n  match s with\n")
		for i := 0; i <= n; i++ {
			fmt.Fprintf(&sb, "  | \"k%d\" -> %d\n", i, i)
		}
		sb.WriteString("  | _ -> 0\n")
		return sb.String()
	}},
	{"nested slice type", 2000, func(n int) string { return "let f (x:" + rep("[]", n+1) + "int) = x\n" }},
	{"long function type", 3000, func(n int) string { return "let f (x:int" + rep("->int", n+1) + ") = x\n" }},
	// the next three double fc's running time with every level (known finding D24): bounded at 8 levels
	{"nested generic type argument", 8, func(n int) string {
		return "type B<T> = {V: T}\n\nlet f (x:" + rep("B<", n) + "int" + rep(">", n) + ") = x\n"
	}},
	{"nested constructor applications of a generic union", 8, func(n int) string {
		return "type Opt<T> =\n| Some of T\n| None\n\nlet f () =\n  " + rep("Some (", n) + "1" + rep(")", n) + "\n"
	}},
	{"nested literals of a generic record", 8, func(n int) string {
		return "type B<T> = {V: T}\n\nlet f () =\n  " + rep("{V=", n) + "1" + rep("}", n) + "\n"
	}},
	// doubles with every level as well (known finding D27): a record type reached along 2^n paths
	{"chain of records each mentioning the next one twice", 10, func(n int) string {
		var sb strings.Builder
		fmt.Fprintf(&sb, "type R%d = {x: int}\n\n", n)
		for i := n - 1; i >= 0; i-- {
			fmt.Fprintf(&sb, "type R%d = {a: R%d; b: R%d}\n\n", i, i+1, i+1)
		}
		sb.WriteString("let f (r:R0) = r\n")
		return sb.String()
	}},
	{"many files' worth of package_info entries", 5000, func(n int) string {
		var sb strings.Builder
		sb.WriteString("package_info ext =\n")
		for i := 0; i <= n; i++ {
			fmt.Fprintf(&sb, "  let F%d: int->int\n", i)
		}
		sb.WriteString("\nlet f () = ext.F0 1\n")
		return sb.String()
	}},
}

// ScaleCase is stored instead of the (possibly large) file content.
type ScaleCase struct {
	Template string `json:"template"`
	N        int    `json:"n"`
}

func (sc ScaleCase) toCase() (Case, error) {
	for _, tp := range scaleTpls {
		if tp.name == sc.Template {
			// every template ends with one more definition: an accepted input must have been translated to its end
			body := "package main\n\nimport frt\n\n" + tp.make(sc.N) + "\nlet zzLast () = 7\n"
			return Case{Files: []File{{Name: "scale.fo", Content: []byte(body)}}, Args: []string{"@foi", "scale.fo"}, Mutator: []string{"scale:" + tp.name}, MustContain: "func zzLast("}, nil
		}
	}
	return Case{}, fmt.Errorf("unknown scale template %q", sc.Template)
}

func checkScale(sc ScaleCase) error {
	c, err := sc.toCase()
	if err != nil {
		return err
	}
	if err := check(c); err != nil {
		msg := err.Error()
		if i := strings.Index(msg, "--- "); i > 0 && len(msg) > 1500 {
			msg = msg[:i]
		}
		return fmt.Errorf("template %q with N = %d: %s", sc.Template, sc.N, pipeline.Clip(msg, 1500))
	}
	return nil
}

func TestScale(t *testing.T) {
	e := vt.Get()
	defer e.Flush()
	if e.FC == "" {
		t.Skip("needs the orchestrator (VERIF_FC)")
	}
	rapid.Check(t, func(rt *rapid.T) {
		tp := scaleTpls[rapid.IntRange(0, len(scaleTpls)-1).Draw(rt, "template")]
		// logarithmic scale: a decade is drawn first, then a position inside it; the bound itself is drawn often
		n := tp.max
		if rapid.IntRange(0, 3).Draw(rt, "atBound") != 0 {
			dec := 1
			for d := rapid.IntRange(0, 6).Draw(rt, "decade"); d > 0 && dec*10 <= tp.max; d-- {
				dec *= 10
			}
			n = rapid.IntRange(dec, min(dec*10, tp.max)).Draw(rt, "n")
		}
		sc := ScaleCase{Template: tp.name, N: n}
		var v verdict
		e.Check(rt, "scale", sc, func() error {
			c, err := sc.toCase()
			if err != nil {
				return err
			}
			v, err = checkWith(e, e.FC, c)
			if err != nil {
				return checkScale(sc)
			}
			return nil
		})
		e.Record("TestScale", vt.HashJSON(sc), n >= 100, []string{"scale:" + tp.name, "outcome:" + v.outcome}, func() any { return sc })
	})
}
