package c16

import (
	"fmt"
	"os"
	"path/filepath"
	"regexp"
	"runtime"
	"strconv"
	"strings"
	"testing"
	"time"

	"verif/harness/pipeline"
	"verif/harness/vt"
)

// --- coverage-guided fuzzing (thorough tier only) -----------------------------------------------------
// Go's native fuzzer drives an in-process copy of the compiler: the non-test Go files of fc/ are copied
// next to it inside the scratch snapshot and one _test.go file is added (nothing is added to /repo). The
// target transpiles pkg_all.foi and then the fuzz input with fresh global tables, under a 10 s watchdog;
// fc's own error path (a panic recovered at the top, printed as the diagnostic) is a normal outcome, so
// what the fuzzer can find is a hang or a death of the worker process (stack exhaustion, out of memory).
// The native fuzzer cannot be seeded, so a campaign is not reproducible; the reproducible unit is the
// saved input: every crasher is re-decided with the real fc binary through the process-level oracle of
// this file, and only a crasher the binary confirms is a violation (replayable as an "fc-run" case).

const fuzzTarget = `package main

import (
	"os"
	"path/filepath"
	"testing"
	"time"

	"github.com/karino2/folang/pkg/dict"
)

func transpileFresh(foi, src string) (res string, out string) {
	defer func() {
		if r := recover(); r != nil {
			res = "diag"
		}
	}()
	g_recInfoDic = dict.New[string, RecordTypeInfo]()
	g_uniInfoDic = dict.New[string, UnionTypeInfo]()
	resetUniqueTmpCounter()
	ps := initParse(foi)
	ps2, _ := parseAll(ps)
	ps3 := psSetNewSrc(src, ps2)
	_, stmts := parseAll(ps3)
	return "ok", RootStmtsToGo(stmts)
}

func FuzzTranspile(f *testing.F) {
	foiB, err := os.ReadFile(os.Getenv("VERIF_FOI"))
	if err != nil {
		f.Fatal(err)
	}
	foi := string(foiB)
	if d := os.Getenv("VERIF_FUZZ_SEEDS"); d != "" {
		fs, _ := filepath.Glob(filepath.Join(d, "*"))
		for _, p := range fs {
			if b, err := os.ReadFile(p); err == nil {
				f.Add(string(b))
			}
		}
	}
	f.Fuzz(func(t *testing.T, src string) {
		done := make(chan string, 1)
		go func() {
			r, _ := transpileFresh(foi, src)
			done <- r
		}()
		select {
		case <-done:
		case <-time.After(10 * time.Second):
			t.Fatalf("no result after 10 s")
		}
	})
}
`

var reExecs = regexp.MustCompile(`execs: ([0-9]+)`)
var reFailing = regexp.MustCompile(`Failing input written to (testdata/fuzz/FuzzTranspile/[0-9a-f]+)`)

// corpusString decodes a file of Go's fuzz corpus format holding one string argument.
func corpusString(b []byte) (string, bool) {
	lines := strings.SplitN(string(b), "\n", 2)
	if len(lines) < 2 || !strings.HasPrefix(lines[0], "go test fuzz v1") {
		return "", false
	}
	arg := strings.TrimSpace(lines[1])
	if !strings.HasPrefix(arg, "string(") || !strings.HasSuffix(arg, ")") {
		return "", false
	}
	s, err := strconv.Unquote(arg[len("string(") : len(arg)-1])
	return s, err == nil
}

func TestNativeFuzz(t *testing.T) {
	e := vt.Get()
	defer e.Flush()
	if e.FC == "" {
		t.Skip("needs the orchestrator (VERIF_FC)")
	}
	budget := 0
	if e.Thorough() {
		budget = 420
	}
	if v := os.Getenv("VERIF_FUZZ_SECONDS"); v != "" {
		budget, _ = strconv.Atoi(v)
	}
	if budget <= 0 || e.Shard != 0 {
		return
	}
	dir := filepath.Join(e.Repo, "fc_fuzz_verif")
	os.RemoveAll(dir)
	if err := os.MkdirAll(dir, 0o755); err != nil {
		t.Fatalf("harness: %v", err)
	}
	src, _ := filepath.Glob(filepath.Join(e.Repo, "fc", "*"))
	for _, p := range src {
		b := filepath.Base(p)
		if strings.HasSuffix(b, "_test.go") || !(strings.HasSuffix(b, ".go") || b == "go.mod" || b == "go.sum") {
			continue
		}
		data, err := os.ReadFile(p)
		if err != nil {
			t.Fatalf("harness: %v", err)
		}
		os.WriteFile(filepath.Join(dir, b), data, 0o644)
	}
	os.WriteFile(filepath.Join(dir, "zz_fuzz_test.go"), []byte(fuzzTarget), 0o644)
	seedDir := filepath.Join(e.Scratch, "fuzzseeds")
	os.RemoveAll(seedDir)
	os.MkdirAll(seedDir, 0o755)
	for i, s := range seeds(e) {
		os.WriteFile(filepath.Join(seedDir, fmt.Sprintf("%03d_%s", i, s.name)), []byte(s.text), 0o644)
	}
	// hostile constants the mutators of TestMutants also use, each appended to a small valid program
	for i, o := range append(append([]string{}, openers...), selfRef...) {
		os.WriteFile(filepath.Join(seedDir, fmt.Sprintf("h%03d", i)), []byte("package main\n\nlet f () = 1\n"+o+"\n"), 0o644)
	}
	for i, rb := range rawBytes {
		os.WriteFile(filepath.Join(seedDir, fmt.Sprintf("r%03d", i)), []byte("package main\n\nlet f () = 1"+rb+"\nlet g (x:int) ="+rb+" x + 1\n"), 0o644)
	}
	env := pipeline.GoEnv("VERIF_FOI="+filepath.Join(e.Repo, "pkg", "pkg_all.foi"), "VERIF_FUZZ_SEEDS="+seedDir)
	if e.GoCache != "" {
		env = pipeline.GoEnv("GOCACHE="+e.GoCache, "VERIF_FOI="+filepath.Join(e.Repo, "pkg", "pkg_all.foi"), "VERIF_FUZZ_SEEDS="+seedDir)
	}
	// every seed goes through the real binary first: a seed that already breaks the property is a violation
	// in its own right (and would stop the fuzzer before it starts)
	seedFiles, _ := filepath.Glob(filepath.Join(seedDir, "*"))
	for _, sf := range seedFiles {
		b, _ := os.ReadFile(sf)
		c := Case{Files: []File{{Name: "fuzzed.fo", Content: b}}, Args: []string{"@foi", "fuzzed.fo"}, Mutator: []string{"native-fuzz-seed:" + filepath.Base(sf)}}
		e.Check(t, "fc-run", c, func() error { return check(c) })
		e.Record("TestNativeFuzz", vt.Hash(string(b)), false, []string{"fuzz: seed decided with the binary"}, nil)
	}
	// the target must build and pass on its seeds before the campaign means anything
	if r := pipeline.Run(pipeline.Opts{Dir: dir, Env: env, Timeout: 10 * time.Minute}, "go", "test", "-count=1", "-run", "FuzzTranspile", "."); r.Exit != 0 {
		os.WriteFile(filepath.Join(e.Scratch, "harness_bug.txt"), []byte(r.String()), 0o644)
		t.Fatalf("harness bug: the fuzz target does not build or fails on its seed corpus:\n%s", pipeline.Clip(r.Combined(), 3000))
	}
	deadline := time.Now().Add(time.Duration(budget) * time.Second)
	totalExecs, crashers, confirmed, unconfirmed, rounds := 0, 0, 0, 0, 0
	for time.Until(deadline) > 20*time.Second && rounds < 12 {
		rounds++
		left := int(time.Until(deadline).Seconds())
		r := pipeline.Run(pipeline.Opts{Dir: dir, Env: env, Timeout: time.Duration(left+120) * time.Second}, "go", "test", "-run", "^$", "-fuzz", "FuzzTranspile",
			"-fuzztime", fmt.Sprintf("%ds", left), "-parallel", strconv.Itoa(runtime.NumCPU()), ".")
		out := r.Combined()
		if ms := reExecs.FindAllStringSubmatch(out, -1); len(ms) > 0 {
			n, _ := strconv.Atoi(ms[len(ms)-1][1])
			totalExecs += n
		}
		m := reFailing.FindStringSubmatch(out)
		if m == nil {
			if r.Exit != 0 && !strings.Contains(out, "PASS") {
				t.Logf("fuzz round %d ended without a saved input (exit %d): %s", rounds, r.Exit, pipeline.Clip(out, 1500))
			}
			continue
		}
		crashers++
		p := filepath.Join(dir, m[1])
		b, _ := os.ReadFile(p)
		os.Rename(p, filepath.Join(e.Scratch, fmt.Sprintf("crasher-%d", crashers))) // or the next round fails on it at once
		input, ok := corpusString(b)
		if !ok {
			t.Logf("cannot decode the saved input %s", m[1])
			continue
		}
		c := Case{Files: []File{{Name: "fuzzed.fo", Content: []byte(input)}}, Args: []string{"@foi", "fuzzed.fo"}, Mutator: []string{"native-fuzz"}}
		before := confirmed
		e.Check(t, "fc-run", c, func() error {
			if err := check(c); err != nil {
				confirmed++
				return fmt.Errorf("(input found by coverage-guided fuzzing of the in-process compiler, confirmed with the fc binary) %v", err)
			}
			return nil
		})
		if confirmed == before {
			unconfirmed++
			e.Record("TestNativeFuzz", vt.Hash(input), true, []string{"fuzz: in-process crasher the fc binary handles correctly (not a violation)"}, func() any {
				return map[string]any{"input": pipeline.Clip(input, 600), "in_process_output": pipeline.Clip(out, 600)}
			})
		}
	}
	// what the fuzzer kept is what reached new coverage
	kept, _ := filepath.Glob(filepath.Join(e.GoCache, "fuzz", "github.com", "karino2", "folang", "fc", "FuzzTranspile", "*"))
	for i, k := range kept {
		b, _ := os.ReadFile(k)
		s, ok := corpusString(b)
		if !ok {
			continue
		}
		var sample func() any
		if i < 3 {
			sample = func() any { return map[string]any{"input_that_reached_new_coverage": pipeline.Clip(s, 400)} }
		}
		e.Record("TestNativeFuzz", vt.Hash(s), true, []string{"fuzz: input kept by the fuzzer (new coverage)"}, sample)
	}
	if rest := totalExecs - len(kept); rest > 0 {
		e.RecordN("TestNativeFuzz", "bulk", false, []string{"fuzz: executions"}, rest, nil)
	}
	e.Meta("TestNativeFuzz", map[string]any{"budget_s": budget, "rounds": rounds, "executions": totalExecs, "inputs_kept_for_new_coverage": len(kept),
		"crashers": crashers, "confirmed_by_the_binary": confirmed, "unconfirmed": unconfirmed, "reproducible": "no (Go's native fuzzer takes no seed); saved inputs are"})
}
