// C17: tinyfo (the bootstrap transpiler) preserves behaviour on the
// early-Folang subset: three-way agreement between tinyfo's translation, the
// reference evaluator and fc's translation of the same source.
package c17

import (
	"encoding/json"
	"fmt"
	"os"
	"path/filepath"
	"regexp"
	"sort"
	"strings"
	"testing"

	"pgregory.net/rapid"

	"verif/harness/lang"
	"verif/harness/pipeline"
	"verif/harness/vt"
)

type Case struct {
	Src  string `json:"src"`
	Want string `json:"want"`
}

var runner *pipeline.Runner

func getRunner(e *vt.Env) *pipeline.Runner {
	if runner == nil {
		runner = pipeline.NewRunner(e.Scratch, e.Repo, e.GoCache)
	}
	return runner
}

func runWith(e *vt.Env, tool, toolName string, c Case) (string, error) {
	res, err := getRunner(e).RunProgram(tool, nil, []pipeline.SrcFile{{Name: "prog.fo", Content: c.Src}}, true)
	if err != nil {
		return "", fmt.Errorf("harness: %v", err)
	}
	switch res.Stage {
	case "fc":
		return "", fmt.Errorf("%s rejects a program of the early-Folang subset (exit %d):\n%s\n--- source\n%s", toolName, res.Exit, pipeline.Clip(res.Output, 1200), c.Src)
	case "gobuild":
		return "", fmt.Errorf("the Go emitted by %s does not compile:\n%s\n--- source\n%s\n--- emitted\n%s", toolName, pipeline.Clip(res.Output, 1200), c.Src, pipeline.Clip(res.GoSrc["gen_prog.go"], 6000))
	case "run":
		return "", fmt.Errorf("the program built from %s's output fails at run time (exit %d):\n%s\n--- source\n%s", toolName, res.Exit, pipeline.Clip(res.Stderr, 800), c.Src)
	}
	return res.Output, nil
}

func check(c Case) error {
	e := vt.Get()
	if e.Tinyfo == "" || e.FC == "" {
		return fmt.Errorf("needs VERIF_TINYFO and VERIF_FC")
	}
	got, err := runWith(e, e.Tinyfo, "tinyfo", c)
	if err != nil {
		return err
	}
	if got != c.Want {
		return fmt.Errorf("tinyfo's translation prints something else than the source semantics give\n--- want\n%s--- got\n%s--- source\n%s", c.Want, got, c.Src)
	}
	gotFC, err := runWith(e, e.FC, "fc", c)
	if err != nil {
		return err
	}
	if gotFC != got {
		return fmt.Errorf("tinyfo's and fc's translations of the same program print different output\n--- tinyfo\n%s--- fc\n%s--- source\n%s", got, gotFC, c.Src)
	}
	return nil
}

func genCase(rt *rapid.T) (Case, *lang.Gen, error) {
	g := lang.NewGen(rt, lang.Tiny)
	pr := g.GenProgram()
	// the library declarations in tinyfo's dialect come first
	pr.Items = append([]*lang.TopItem{{Raw: lang.TinyPkgInfo, Label: "pkginfo"}}, pr.Items...)
	src := lang.Print(pr, lang.Canonical{})
	want, err := lang.Run(pr)
	return Case{Src: src, Want: want}, g, err
}

func nontrivial(labels map[string]bool, want string) bool {
	probe := strings.Contains(want, "\nt") || strings.HasPrefix(want, "t")
	feature := false
	for l := range labels {
		for _, k := range []string{"partial application", "union match", "if/else", "pipe", "function-valued let"} {
			if strings.Contains(l, k) {
				feature = true
			}
		}
	}
	return probe && feature
}

func TestTinyfo(t *testing.T) {
	e := vt.Get()
	defer e.Flush()
	if e.Tinyfo == "" {
		t.Skip("needs the orchestrator (VERIF_TINYFO)")
	}
	rapid.Check(t, func(rt *rapid.T) {
		c, g, err := genCase(rt)
		if err != nil {
			os.WriteFile(filepath.Join(e.Scratch, "harness_bug.txt"), []byte(err.Error()+"\n"+c.Src), 0o644) // a harness defect is inconclusive, never a violation
			rt.Fatalf("harness bug: reference evaluator: %v\n%s", err, c.Src)
		}
		var labels []string
		for l := range g.Labels {
			labels = append(labels, l)
		}
		sort.Strings(labels)
		e.Record("TestTinyfo", vt.Hash(c.Src), nontrivial(g.Labels, c.Want), labels, func() any {
			return map[string]any{"source": c.Src, "expected_stdout": c.Want, "steered": g.Steered}
		})
		e.Check(rt, "tinyfo-program", c, func() error { return check(c) })
	})
}

// TestKnown: recorded findings.
func TestKnown(t *testing.T) {
	e := vt.Get()
	defer e.Flush()
	if e.Tinyfo == "" {
		t.Skip("needs the orchestrator (VERIF_TINYFO)")
	}
	for _, k := range e.KnownFor("C17") {
		b, err := os.ReadFile(filepath.Join(e.VerifDir, k.Reproducer))
		if err != nil {
			t.Fatalf("known finding %s: reproducer missing: %v", k.ID, err)
		}
		var fc vt.FailCase
		if err := json.Unmarshal(b, &fc); err != nil {
			t.Fatalf("known finding %s: %v", k.ID, err)
		}
		var c Case
		json.Unmarshal(fc.Case, &c)
		if err := check(c); err != nil {
			vt.PrintKnown(k)
		} else {
			t.Logf("known finding %s no longer reproduces", k.ID)
		}
		e.Record("TestKnown", vt.Hash(c.Src), true, []string{"known finding " + k.ID}, nil)
	}
}

// TestSurvey (development aid, VERIF_SURVEY=1).
func TestSurvey(t *testing.T) {
	if os.Getenv("VERIF_SURVEY") == "" {
		t.Skip()
	}
	e := vt.Get()
	cats := map[string][]string{}
	count := 0
	rapid.Check(t, func(rt *rapid.T) {
		c, _, err := genCase(rt)
		count++
		key, msg := "", ""
		if err != nil {
			key, msg = "EVAL: "+err.Error(), c.Src
		} else if cerr := check(c); cerr != nil {
			lines := strings.Split(cerr.Error(), "\n")
			key = lines[0]
			for _, l := range lines[1:] {
				if strings.HasPrefix(l, "Transpile:") || strings.HasPrefix(l, "transpile:") || strings.HasPrefix(l, "# work") || strings.HasPrefix(l, "func: ") {
					continue
				}
				key += " | " + reNum.ReplaceAllString(l, "N")
				break
			}
			msg = cerr.Error()
		}
		if key != "" {
			cats[key] = append(cats[key], msg)
		}
	})
	out := filepath.Join(e.Scratch, "survey")
	os.MkdirAll(out, 0o755)
	var ks []string
	for k := range cats {
		ks = append(ks, k)
	}
	sort.Slice(ks, func(i, j int) bool { return len(cats[ks[i]]) > len(cats[ks[j]]) })
	fmt.Printf("SURVEY: %d programs, %d failure categories; details in %s\n", count, len(ks), out)
	for i, k := range ks {
		best := cats[k][0]
		for _, m := range cats[k] {
			if len(m) < len(best) {
				best = m
			}
		}
		os.WriteFile(filepath.Join(out, fmt.Sprintf("cat%02d.txt", i)), []byte(k+"\n\n"+best), 0o644)
		fmt.Printf("%4d  cat%02d  %s\n", len(cats[k]), i, pipeline.Clip(k, 220))
	}
}

var reNum = regexp.MustCompile(`[0-9]+`)

func TestReplay(t *testing.T) {
	e := vt.Get()
	e.RunReplay(t, map[string]func(json.RawMessage) error{
		"tinyfo-program": vt.Handler(check),
	})
}
