// C18: build_sample_md renders every listed sample verbatim, in order.
package c18

import (
	"encoding/json"
	"fmt"
	"os"
	"path/filepath"
	"strings"
	"testing"
	"time"

	"pgregory.net/rapid"

	"verif/harness/pipeline"
	"verif/harness/vt"
)

type Entry struct {
	Name     string `json:"name"`  // as written in the list (with or without .fo)
	Title    string `json:"title"` // text after the first space; HasTitle=false: no space on the line
	HasTitle bool   `json:"has_title"`
	Content  string `json:"content"`
	Fault    string `json:"fault,omitempty"` // "" | missing | directory
	// Bulk: the file continues with BulkN copies of BulkUnit (kept symbolic so that case files stay small):
	// one line of 70,000 characters, or tens of thousands of short lines
	BulkUnit string `json:"bulk_unit,omitempty"`
	BulkN    int    `json:"bulk_n,omitempty"`
	// CRLF (entries with a title only): the list line ends with \r\n instead of \n (a list edited on two
	// systems). The tool splits at \n, so the CR stays at the end of the title: the heading may show it or not,
	// but the entry is an entry of its own and so are the lines after it.
	CRLF bool `json:"crlf,omitempty"`
}

// full returns the complete file content of the entry.
func (en Entry) full() string {
	if en.BulkN > 0 {
		return en.Content + strings.Repeat(en.BulkUnit, en.BulkN)
	}
	return en.Content
}

type Case struct {
	Entries     []Entry `json:"entries"`
	BlankBefore []int   `json:"blank_before,omitempty"` // number of empty lines before entry i (len = len(Entries)+1, last = trailing)
	FinalNL     bool    `json:"final_newline"`
	Invoke      string  `json:"invoke"` // relative | absolute | subdir
}

func (c Case) listText() string {
	var sb strings.Builder
	blank := func(i int) {
		if i < len(c.BlankBefore) {
			sb.WriteString(strings.Repeat("\n", c.BlankBefore[i]))
		}
	}
	for i, en := range c.Entries {
		blank(i)
		sb.WriteString(en.Name)
		if en.HasTitle {
			sb.WriteString(" " + en.Title)
		}
		if en.CRLF && en.HasTitle && (i < len(c.Entries)-1 || c.FinalNL) {
			sb.WriteString("\r")
		}
		if i < len(c.Entries)-1 || c.FinalNL {
			sb.WriteString("\n")
		}
	}
	if c.FinalNL {
		blank(len(c.Entries))
	}
	return sb.String()
}

func (c Case) faulty() bool {
	for _, en := range c.Entries {
		if en.Fault != "" {
			return true
		}
	}
	return false
}

const sentinel = "SENTINEL README: must survive a failing run\n"

var seq int

func check(c Case) error {
	e := vt.Get()
	if e.BSM == "" {
		return fmt.Errorf("needs VERIF_BSM")
	}
	seq++
	root := filepath.Join(e.Scratch, fmt.Sprintf("d%d", seq%4))
	os.RemoveAll(root)
	dir := root
	if c.Invoke == "subdir" {
		dir = filepath.Join(root, "sub", "dir")
	}
	if err := os.MkdirAll(dir, 0o755); err != nil {
		return err
	}
	written := map[string]bool{}
	for _, en := range c.Entries {
		p := filepath.Join(dir, en.Name)
		switch en.Fault {
		case "missing":
			if !written[en.Name] {
				os.Remove(p)
			}
		case "directory":
			if !written[en.Name] {
				os.MkdirAll(p, 0o755)
			}
		default:
			if err := os.WriteFile(p, []byte(en.full()), 0o644); err != nil {
				return err
			}
			written[en.Name] = true
		}
	}
	listPath := filepath.Join(dir, "list.txt")
	if err := os.WriteFile(listPath, []byte(c.listText()), 0o644); err != nil {
		return err
	}
	readme := filepath.Join(dir, "README.md")
	if c.faulty() {
		os.WriteFile(readme, []byte(sentinel), 0o644)
	}
	var arg, cwd string
	switch c.Invoke {
	case "absolute":
		arg, cwd = listPath, e.Scratch
	case "subdir":
		arg, cwd = filepath.Join("sub", "dir", "list.txt"), root
	default:
		arg, cwd = "list.txt", dir
	}
	r := pipeline.Run(pipeline.Opts{Dir: cwd, Timeout: 60 * time.Second, VLimKB: pipeline.ToolVLimKB}, e.BSM, arg)
	if r.TimedOut || r.Signal != "" || r.Err != nil {
		return fmt.Errorf("build_sample_md did not finish normally: %s", r.String())
	}
	if c.faulty() {
		if r.Exit == 0 {
			return fmt.Errorf("a listed file cannot be read, yet the tool exits 0\nlist:\n%s", c.listText())
		}
		b, err := os.ReadFile(readme)
		if err != nil || string(b) != sentinel {
			return fmt.Errorf("a listed file cannot be read, yet README.md was (re)written or removed: now %q\nlist:\n%s", pipeline.Clip(string(b), 300), c.listText())
		}
		return nil
	}
	if r.Exit != 0 {
		return fmt.Errorf("tool fails (exit %d) on a readable list:\n%s\nlist:\n%s", r.Exit, pipeline.Clip(r.Combined(), 500), c.listText())
	}
	b, err := os.ReadFile(readme)
	if err != nil {
		return fmt.Errorf("exit 0 but no README.md in the list's directory (invoked as %q)", c.Invoke)
	}
	return consume(string(b), c)
}

// consume is the sequential reader of the README described in DESIGN.md.
func consume(s string, c Case) error {
	pos := 0
	// nextLine skips blank lines and returns the next line without its newline
	nextLine := func() (string, bool) {
		for pos < len(s) {
			end := strings.IndexByte(s[pos:], '\n')
			var line string
			if end < 0 {
				line = s[pos:]
				pos = len(s)
			} else {
				line = s[pos : pos+end]
				pos += end + 1
			}
			if strings.TrimSpace(line) != "" {
				return line, true
			}
		}
		return "", false
	}
	fail := func(i int, format string, a ...any) error {
		return fmt.Errorf("README section %d: %s\nlist:\n%s\nREADME:\n%s", i, fmt.Sprintf(format, a...), c.listText(), pipeline.Clip(s, 2500))
	}
	line, ok := nextLine()
	if !ok || strings.TrimRight(line, " ") != "## Folang Sample" {
		return fail(-1, "first line is %q, want the header \"## Folang Sample\"", line)
	}
	for i, en := range c.Entries {
		title := en.Name
		if en.HasTitle {
			title = en.Title
		}
		line, ok := nextLine()
		if en.CRLF && en.HasTitle {
			line = strings.TrimSuffix(line, "\r")
		}
		if !ok || line != "### "+title {
			return fail(i, "heading is %q, want %q", line, "### "+title)
		}
		line, ok = nextLine()
		if !ok || strings.TrimRight(line, " ") != "```" {
			return fail(i, "expected an opening code fence, found %q", line)
		}
		content := en.full()
		if !strings.HasPrefix(s[pos:], content) {
			got := s[pos:]
			if len(got) > len(content)+20 {
				got = got[:len(content)+20]
			}
			return fail(i, "the file content is not shown verbatim: README has %q, file %s holds %q", got, en.Name, pipeline.Clip(content, 300))
		}
		pos += len(content)
		// the rest of the content's last line must be empty, then the closing fence
		if pos < len(s) && s[pos] != '\n' {
			return fail(i, "text follows the file content on its last line: %q", pipeline.Clip(s[pos:], 40))
		}
		line, ok = nextLine()
		if !ok || strings.TrimRight(line, " ") != "```" {
			return fail(i, "expected the closing code fence after the content, found %q", line)
		}
		base := strings.TrimSuffix(en.Name, ".fo")
		wantLink := fmt.Sprintf("generated go: [gen_%s.go](./gen_%s.go)", base, base)
		line, ok = nextLine()
		if !ok || strings.TrimRight(line, " ") != wantLink {
			return fail(i, "link line is %q, want %q", line, wantLink)
		}
	}
	if line, ok := nextLine(); ok {
		return fail(len(c.Entries), "unexpected text after the last section: %q", line)
	}
	return nil
}

var nameParts = []string{"a", "b", "sample", "two_func", "x1", "Union", "t-1", "m.n", "p%d", "50%"}
var words = []string{"Record", "Union", "with", "match", "a", "of", "#1", "```", "###", "(x)", "é", "100%", "%s", "%d", "%", "{0}", "\\n", "*b*", "_i_", "|", "[l](u)"}
var contentLines = []string{
	"package main", "", "let f x = x", "```", "### Title", "## Folang Sample ", "generated go: [gen_a.go](./gen_a.go)",
	"  indented  ", "// comment", "tab\there", "ünïcödé ☃", "`raw`", "\\n literal", "trailing space ", "\r", "100% %s %d %v", "{x} {{y}}",
}

func genCase(t *rapid.T) Case {
	c := Case{}
	n := rapid.IntRange(0, 8).Draw(t, "entries")
	used := map[string]int{}
	for i := 0; i < n; i++ {
		var en Entry
		en.Name = rapid.SampledFrom(nameParts).Draw(t, "name")
		if rapid.IntRange(0, 5).Draw(t, "suffixDigit") == 0 {
			en.Name += fmt.Sprint(i)
		}
		if rapid.IntRange(0, 3).Draw(t, "ext") != 0 {
			en.Name += ".fo"
		}
		switch rapid.IntRange(0, 3).Draw(t, "titleKind") {
		case 0: // no title
		default:
			en.HasTitle = true
			k := rapid.IntRange(1, 4).Draw(t, "words")
			var ws []string
			for j := 0; j < k; j++ {
				ws = append(ws, rapid.SampledFrom(words).Draw(t, "word"))
			}
			sep := rapid.SampledFrom([]string{" ", " ", "  "}).Draw(t, "sep")
			en.Title = strings.Join(ws, sep)
			if rapid.IntRange(0, 7).Draw(t, "lead") == 0 {
				en.Title = " " + en.Title
			}
		}
		if prev, ok := used[en.Name]; ok {
			// the same file listed twice: same content
			en.Content, en.BulkUnit, en.BulkN = c.Entries[prev].Content, c.Entries[prev].BulkUnit, c.Entries[prev].BulkN
		} else {
			k := rapid.IntRange(0, 6).Draw(t, "lines")
			var ls []string
			for j := 0; j < k; j++ {
				ls = append(ls, rapid.SampledFrom(contentLines).Draw(t, "line"))
			}
			en.Content = strings.Join(ls, "\n")
			if k > 0 && rapid.Bool().Draw(t, "contentFinalNL") {
				en.Content += "\n"
			}
			if rapid.IntRange(0, 19).Draw(t, "bulk") == 0 {
				switch rapid.IntRange(0, 2).Draw(t, "bulkKind") {
				case 0: // one very long line (beyond the 64 KB token limit of a bufio.Scanner)
					en.BulkUnit, en.BulkN = "x", 70000
				case 1: // many short lines
					en.BulkUnit, en.BulkN = "let v = 1\n", 30000
				default: // no line end at all for more than a buffer
					en.BulkUnit, en.BulkN = "ab ", 5000
				}
			}
			if rapid.IntRange(0, 9).Draw(t, "rawText") == 0 {
				en.Content = rapid.StringOfN(rapid.RuneFrom([]rune("ab \n`#[]()é\t")), 0, 30, -1).Draw(t, "raw")
			}
			used[en.Name] = i
		}
		if en.HasTitle && rapid.IntRange(0, 9).Draw(t, "crlfLine") == 0 {
			en.CRLF = true
		}
		c.Entries = append(c.Entries, en)
	}
	for i := 0; i <= n; i++ {
		c.BlankBefore = append(c.BlankBefore, rapid.SampledFrom([]int{0, 0, 0, 1, 2}).Draw(t, "blank"))
	}
	c.FinalNL = rapid.Bool().Draw(t, "finalNL")
	c.Invoke = rapid.SampledFrom([]string{"relative", "absolute", "subdir"}).Draw(t, "invoke")
	if n > 0 && rapid.IntRange(0, 5).Draw(t, "fault") == 0 {
		i := rapid.IntRange(0, n-1).Draw(t, "faultAt")
		// only an entry whose name is not also listed as a readable file
		same := 0
		for _, en := range c.Entries {
			if en.Name == c.Entries[i].Name {
				same++
			}
		}
		if same == 1 {
			c.Entries[i].Fault = rapid.SampledFrom([]string{"missing", "directory"}).Draw(t, "faultKind")
		}
	}
	return c
}

func classify(c Case) (bool, []string) {
	multi, untitled := false, false
	for _, en := range c.Entries {
		if en.HasTitle && strings.Contains(strings.TrimSpace(en.Title), " ") {
			multi = true
		}
		if !en.HasTitle {
			untitled = true
		}
	}
	labels := []string{fmt.Sprintf("%d entries", len(c.Entries)), "invoke:" + c.Invoke}
	if c.faulty() {
		labels = append(labels, "fault: unreadable listed file")
	}
	blank := false
	for _, b := range c.BlankBefore {
		if b > 0 {
			blank = true
		}
	}
	if blank {
		labels = append(labels, "blank lines in list")
	}
	if !c.FinalNL {
		labels = append(labels, "no final newline")
	}
	for _, en := range c.Entries {
		if en.CRLF {
			labels = append(labels, "a list line ending in CR LF among LF lines")
			break
		}
	}
	for _, en := range c.Entries {
		if en.BulkN > 0 {
			labels = append(labels, "a listed file with a very long line or tens of thousands of lines")
			break
		}
	}
	for _, en := range c.Entries {
		if strings.Contains(en.Content, "```") || strings.Contains(en.Content, "###") || strings.Contains(en.Content, "generated go:") {
			labels = append(labels, "content looks like structure")
			break
		}
	}
	for _, en := range c.Entries {
		if !strings.HasSuffix(en.Name, ".fo") {
			labels = append(labels, "name without .fo")
			break
		}
	}
	return len(c.Entries) >= 2 && multi && untitled, labels
}

func TestReadme(t *testing.T) {
	e := vt.Get()
	defer e.Flush()
	if e.BSM == "" {
		t.Skip("needs the orchestrator (VERIF_BSM)")
	}
	rapid.Check(t, func(rt *rapid.T) {
		c := genCase(rt)
		nt, labels := classify(c)
		e.Record("TestReadme", vt.HashJSON(c), nt, labels, func() any { return map[string]any{"list": c.listText(), "case": c} })
		e.Check(rt, "readme", c, func() error { return check(c) })
	})
}

func TestReplay(t *testing.T) {
	e := vt.Get()
	e.RunReplay(t, map[string]func(json.RawMessage) error{
		"readme": vt.Handler(check),
	})
}
