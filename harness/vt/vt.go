// Package vt is the small runtime shared by every property package: it reads
// the environment the orchestrator (cmd/vcheck) sets, records one JSON line per
// evaluated case (for the evidence file), and saves the concrete inputs of a
// failing case so that it can be replayed without the generator.
package vt

import (
	"bufio"
	"crypto/sha256"
	"encoding/hex"
	"encoding/json"
	"fmt"
	"os"
	"path/filepath"
	"runtime/debug"
	"sort"
	"strconv"
	"strings"
	"sync"
)

// TB is the part of *testing.T / *rapid.T the helpers need.
type TB interface {
	Fatalf(format string, args ...any)
	Logf(format string, args ...any)
}

type Env struct {
	ID       string
	Tier     string
	Seed     int
	Shard    int
	NShards  int
	Scratch  string // private directory of this shard (exists)
	Repo     string // snapshot of /repo's working tree
	FC       string
	FCB      string // second compiler variant ("" when identical to FC)
	FCPerm   string // fc built against the dict-order shim ("" when unavailable)
	Tinyfo   string
	BSM      string
	GoCache  string // private GOCACHE for emitted programs
	EvLog    string
	FailDir  string
	Replay   string
	VerifDir string
	Budget   int // generic per-test size knob given by the orchestrator (0 = default)

	mu       sync.Mutex
	w        *bufio.Writer
	f        *os.File
	nSamples int
	ntSample int
}

var (
	envOnce sync.Once
	env     *Env
)

func atoi(s string, d int) int {
	if s == "" {
		return d
	}
	n, err := strconv.Atoi(s)
	if err != nil {
		return d
	}
	return n
}

// Get returns the process-wide environment. When the orchestrator variables
// are absent (ad-hoc `go test`), it falls back to a temp scratch directory and
// no logging, so that the in-process properties can still be run by hand.
func Get() *Env {
	envOnce.Do(func() {
		e := &Env{
			ID:       os.Getenv("VERIF_ID"),
			Tier:     os.Getenv("VERIF_TIER"),
			Seed:     atoi(os.Getenv("VERIF_SEED"), 1),
			Shard:    atoi(os.Getenv("VERIF_SHARD"), 0),
			NShards:  atoi(os.Getenv("VERIF_NSHARDS"), 1),
			Scratch:  os.Getenv("VERIF_SCRATCH"),
			Repo:     os.Getenv("VERIF_REPO"),
			FC:       os.Getenv("VERIF_FC"),
			FCB:      os.Getenv("VERIF_FCB"),
			FCPerm:   os.Getenv("VERIF_FCPERM"),
			Tinyfo:   os.Getenv("VERIF_TINYFO"),
			BSM:      os.Getenv("VERIF_BSM"),
			GoCache:  os.Getenv("VERIF_GOCACHE"),
			EvLog:    os.Getenv("VERIF_EVLOG"),
			FailDir:  os.Getenv("VERIF_FAILDIR"),
			Replay:   os.Getenv("VERIF_REPLAY"),
			VerifDir: os.Getenv("VERIF_DIR"),
			Budget:   atoi(os.Getenv("VERIF_BUDGET"), 0),
		}
		if e.Tier == "" {
			e.Tier = "quick"
		}
		if e.VerifDir == "" {
			e.VerifDir = "/verif"
		}
		if e.Scratch == "" {
			d, err := os.MkdirTemp("", "verif-adhoc-")
			if err != nil {
				panic(err)
			}
			e.Scratch = d
		}
		if e.Repo == "" {
			e.Repo = "/repo"
		}
		if e.FailDir == "" {
			e.FailDir = filepath.Join(e.Scratch, "lastfail")
		}
		os.MkdirAll(e.FailDir, 0o755)
		if e.EvLog != "" {
			f, err := os.OpenFile(e.EvLog, os.O_CREATE|os.O_WRONLY|os.O_APPEND, 0o644)
			if err != nil {
				panic(err)
			}
			e.f = f
			e.w = bufio.NewWriterSize(f, 1<<16)
		}
		env = e
	})
	return env
}

func (e *Env) Thorough() bool { return e.Tier == "thorough" }

// Pick returns q in the quick tier and th in the thorough tier, unless the
// orchestrator passed an explicit budget.
func (e *Env) Pick(q, th int) int {
	if e.Budget > 0 {
		return e.Budget
	}
	if e.Thorough() {
		return th
	}
	return q
}

// Hash is the stable content hash used for distinctness.
func Hash(parts ...string) string {
	h := sha256.New()
	for _, p := range parts {
		h.Write([]byte(p))
		h.Write([]byte{0})
	}
	return hex.EncodeToString(h.Sum(nil))[:16]
}

func HashJSON(v any) string {
	b, _ := json.Marshal(v)
	return Hash(string(b))
}

type rec struct {
	T  string   `json:"t,omitempty"` // test name
	H  string   `json:"h,omitempty"`
	NT bool     `json:"nt,omitempty"`
	L  []string `json:"l,omitempty"`
	S  any      `json:"s,omitempty"`
	M  any      `json:"m,omitempty"` // meta record
	N  int      `json:"n,omitempty"` // weight: number of evaluations this record stands for (default 1)
}

// Record logs one evaluated case. sample (may be nil) is called only for the
// few cases per shard that are written out in full.
func (e *Env) Record(test, hash string, nontrivial bool, labels []string, sample func() any) {
	e.RecordN(test, hash, nontrivial, labels, 1, sample)
}

// RecordN logs a record standing for n evaluations that share one hash
// (used when one generated file carries many independent comparisons).
func (e *Env) RecordN(test, hash string, nontrivial bool, labels []string, n int, sample func() any) {
	if e.w == nil {
		return
	}
	e.mu.Lock()
	defer e.mu.Unlock()
	r := rec{T: test, H: hash, NT: nontrivial, L: labels}
	if n != 1 {
		r.N = n
	}
	if sample != nil {
		if nontrivial && e.ntSample < 3 {
			e.ntSample++
			r.S = sample()
		} else if !nontrivial && e.nSamples < 1 {
			e.nSamples++
			r.S = sample()
		}
	}
	b, err := json.Marshal(r)
	if err != nil {
		return
	}
	e.w.Write(b)
	e.w.WriteByte('\n')
}

// Meta logs a free-form fact about the run (e.g. an exhaustive sub-domain and
// its size); the orchestrator copies these into coverage.parts.
func (e *Env) Meta(test string, m any) {
	if e.w == nil {
		return
	}
	e.mu.Lock()
	defer e.mu.Unlock()
	b, err := json.Marshal(rec{T: test, M: m})
	if err != nil {
		return
	}
	e.w.Write(b)
	e.w.WriteByte('\n')
}

func (e *Env) Flush() {
	if e.w == nil {
		return
	}
	e.mu.Lock()
	defer e.mu.Unlock()
	e.w.Flush()
}

// FailCase is the on-disk form of a failing case (also the corpus format).
type FailCase struct {
	Property string          `json:"property"`
	Kind     string          `json:"kind"`
	Msg      string          `json:"msg"`
	Case     json.RawMessage `json:"case"`
}

// SaveFail writes the concrete failing case; the last write wins, which under
// rapid's shrinking is the minimal case.
func (e *Env) SaveFail(kind string, c any, msg string) {
	b, err := json.MarshalIndent(c, "", " ")
	if err != nil {
		b = []byte(fmt.Sprintf("%q", fmt.Sprintf("unmarshalable case: %v", err)))
	}
	fc := FailCase{Property: e.ID, Kind: kind, Msg: msg, Case: b}
	out, _ := json.MarshalIndent(fc, "", " ")
	e.mu.Lock()
	defer e.mu.Unlock()
	os.MkdirAll(e.FailDir, 0o755)
	tmp := filepath.Join(e.FailDir, "case.json.tmp")
	os.WriteFile(tmp, out, 0o644)
	os.Rename(tmp, filepath.Join(e.FailDir, "case.json"))
}

// Check runs f on the concrete case c; an error or a panic of the code under
// test is a property failure: the case is saved and the test fails.
func (e *Env) Check(tb TB, kind string, c any, f func() error) {
	err := Protect(f)
	if err != nil {
		e.Flush()
		e.SaveFail(kind, c, err.Error())
		tb.Fatalf("%s: %v", kind, err)
	}
}

// Protect converts a panic of f into an error.
func Protect(f func() error) (err error) {
	defer func() {
		if r := recover(); r != nil {
			st := string(debug.Stack())
			if len(st) > 1500 {
				st = st[:1500]
			}
			err = fmt.Errorf("panic: %v\n%s", r, st)
		}
	}()
	return f()
}

// ReplayFiles lists the case files named by VERIF_REPLAY (a file, or a
// directory searched recursively for *.json).
func (e *Env) ReplayFiles() []string {
	if e.Replay == "" {
		return nil
	}
	var out []string
	for _, p := range strings.Split(e.Replay, string(os.PathListSeparator)) {
		st, err := os.Stat(p)
		if err != nil {
			// a replay path that cannot be read must not look like a passed replay
			out = append(out, p)
			continue
		}
		if !st.IsDir() {
			out = append(out, p)
			continue
		}
		filepath.Walk(p, func(path string, info os.FileInfo, err error) error {
			if err == nil && !info.IsDir() && strings.HasSuffix(path, ".json") {
				out = append(out, path)
			}
			return nil
		})
	}
	sort.Strings(out)
	return out
}

// Replay runs every saved case through the handler registered for its kind.
// It is the plain regression path: no generator, no rapid.
func (e *Env) RunReplay(tb TB, handlers map[string]func(json.RawMessage) error) {
	files := e.ReplayFiles()
	n := 0
	for _, p := range files {
		b, err := os.ReadFile(p)
		if err != nil {
			tb.Fatalf("replay: %v", err)
		}
		var fc FailCase
		if err := json.Unmarshal(b, &fc); err != nil {
			tb.Fatalf("replay: %s: %v", p, err)
		}
		if fc.Property != "" && e.ID != "" && fc.Property != e.ID {
			continue
		}
		h, ok := handlers[fc.Kind]
		if !ok {
			tb.Fatalf("replay: %s: no handler for kind %q", p, fc.Kind)
		}
		n++
		raw := fc.Case
		err = Protect(func() error { return h(raw) })
		e.Record("replay", Hash(string(raw)), true, []string{"replay:" + fc.Kind}, nil)
		if err != nil {
			e.Flush()
			e.SaveFail(fc.Kind, json.RawMessage(raw), err.Error())
			tb.Fatalf("replay %s: %s: %v", p, fc.Kind, err)
		}
	}
	e.Flush()
	tb.Logf("replayed %d case file(s)", n)
}

// Handler adapts a typed check to the replay table.
func Handler[C any](check func(C) error) func(json.RawMessage) error {
	return func(raw json.RawMessage) error {
		var c C
		if err := json.Unmarshal(raw, &c); err != nil {
			return fmt.Errorf("bad case: %v", err)
		}
		return check(c)
	}
}

// Known findings -----------------------------------------------------------

type KnownFinding struct {
	Property string `json:"property"`
	ID       string `json:"id"`
	What     string `json:"what"`
	// Reproducer is a path relative to /verif; how it is interpreted is up to
	// the property's TestKnown.
	Reproducer string `json:"reproducer,omitempty"`
	Signature  string `json:"signature,omitempty"`
}

type KnownFile struct {
	Known []KnownFinding `json:"known"`
	Fixed []string       `json:"fixed"`
}

func (e *Env) LoadKnown() KnownFile {
	var kf KnownFile
	b, err := os.ReadFile(filepath.Join(e.VerifDir, "known_findings.json"))
	if err != nil {
		return kf
	}
	json.Unmarshal(b, &kf)
	return kf
}

func (e *Env) KnownFor(id string) []KnownFinding {
	var out []KnownFinding
	for _, k := range e.LoadKnown().Known {
		if k.Property == id {
			out = append(out, k)
		}
	}
	return out
}

// PrintKnown emits the line the interface asks for (stdout, so that the
// orchestrator relays it).
func PrintKnown(k KnownFinding) {
	fmt.Printf("KNOWN-FINDING: property=%s %s: %s\n", k.Property, k.ID, k.What)
}
