#!/bin/sh
# Builds the orchestrator and pre-compiles every property package, offline,
# from the files on disk.
set -eu
cd /verif/harness
export GOFLAGS=-mod=mod GOPROXY=off GOSUMDB=off GOTOOLCHAIN=local GOWORK=off
mkdir -p /verif/bin /verif/evidence /verif/replay
go build -o /verif/bin/vcheck ./cmd/vcheck
go vet ./... >/dev/null 2>&1 || true
go test -count=1 -run '^$' ./... >/dev/null
echo "setup ok"
