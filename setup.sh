#!/bin/sh
# Builds the orchestrator and pre-compiles every property package, offline,
# from the files on disk.
set -eu
ROOT=$(cd "$(dirname "$0")" && pwd)
export VERIF_DIR="$ROOT"
cd "$ROOT/harness"
export GOFLAGS=-mod=mod GOPROXY=off GOSUMDB=off GOTOOLCHAIN=local GOWORK=off
mkdir -p "$ROOT/bin" "$ROOT/evidence" "$ROOT/replay"
go build -o "$ROOT/bin/vcheck" ./cmd/vcheck
go vet ./... >/dev/null 2>&1 || true
go test -count=1 -run '^$' ./... >/dev/null
echo "setup ok"
