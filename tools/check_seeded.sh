#!/bin/sh
# tools/check_seeded.sh [name-prefix...]: for every kept seeded change, apply it to /repo, run the quick
# check(s) that are recorded as catching it, undo it, and report caught / MISSED / DOES-NOT-APPLY.
# Development aid: nothing is committed to /repo, replay/ directories created on the way are removed.
cd "$(dirname "$0")/.." || exit 2
V=$(pwd)
sel="$*"
for d in seeded/*/; do
  n=$(basename $d)
  if [ -n "$sel" ]; then ok=0; for p in $sel; do case $n in $p*) ok=1;; esac; done; [ $ok = 1 ] || continue; fi
  ids=$(python3 -c "
import json,re,sys
m=json.load(open('$d/meta.json'))
print(' '.join(sorted(set(re.findall(r'C\d\d',' '.join(m['caught_by']))))))")
  if [ -n "$(git -C /repo status --short)" ]; then echo "/repo is not clean"; exit 2; fi
  if ! git -C /repo apply "$V/$d/patch.diff" 2>/dev/null; then echo "$n: DOES-NOT-APPLY"; continue; fi
  res=""
  for id in $ids; do
    out=$(./check.sh $id quick 2>&1); code=$?
    if [ $code = 1 ] && echo "$out" | grep -q "^VIOLATION property=$id"; then res="$res $id:caught"; else res="$res $id:MISSED(exit=$code)"; fi
    rm -rf replay/$id
  done
  git -C /repo checkout -- . ; git -C /repo clean -fdq -- . 2>/dev/null
  echo "$n:$res"
done
git -C /repo status --short | head -3
