#!/usr/bin/env python3
"""ddmin.py <case.json|file.fo> <regex> [fc]: line-based delta debugging of a source that makes fc print <regex>."""
import json,sys,re,subprocess,os,tempfile
arg=sys.argv[1]; rx=re.compile(sys.argv[2]); fc='/tmp/play/fc'
lrx=re.compile(sys.argv[3]) if len(sys.argv)>3 else None
src=json.load(open(arg))['case']['src'] if arg.endswith('.json') else open(arg).read()
d=tempfile.mkdtemp()
def bad(lines):
    open(d+'/prog.fo','w').write('\n'.join(lines)+'\n')
    try:
        r=subprocess.run([fc,'/repo/pkg/pkg_all.foi','prog.fo'],cwd=d,capture_output=True,text=True,timeout=20)
    except subprocess.TimeoutExpired:
        return False
    out=r.stdout+r.stderr
    if not rx.search(out): return False
    if lrx:
        m=re.search(r'prog\.fo: (\d+):(\d+)',out)
        if not m: return False
        ln=int(m.group(1))
        if ln-1>=len(lines) or not lrx.search(lines[ln-1]): return False
    return True
lines=src.rstrip('\n').split('\n')
assert bad(lines), "does not reproduce"
n=2
while len(lines)>=2:
    chunk=max(1,len(lines)//n); reduced=False
    for i in range(0,len(lines),chunk):
        cand=lines[:i]+lines[i+chunk:]
        if cand and bad(cand):
            lines=cand; n=max(n-1,2); reduced=True; break
    if not reduced:
        if chunk==1: break
        n=min(n*2,len(lines))
print('\n'.join(lines))
