#!/usr/bin/env python3
"""ddmin2.py <file.fo|catNN.txt> <regex> <tool> [keep-prefix-lines]: line-based ddmin; the tool is run as `<tool> prog.fo`."""
import sys,re,subprocess,tempfile
arg=sys.argv[1]; rx=re.compile(sys.argv[2]); tool=sys.argv[3]; keep=int(sys.argv[4]) if len(sys.argv)>4 else 0
t=open(arg).read()
src=t.split('--- source\n')[1].split('\n--- emitted')[0] if '--- source' in t else t
d=tempfile.mkdtemp()
def bad(lines):
    open(d+'/prog.fo','w').write('\n'.join(lines)+'\n')
    try:
        r=subprocess.run(tool.split()+['prog.fo'],cwd=d,capture_output=True,text=True,timeout=20)
    except subprocess.TimeoutExpired:
        return False
    return bool(rx.search(r.stdout+r.stderr))
lines=src.rstrip('\n').split('\n')
assert bad(lines), "does not reproduce"
head,lines=lines[:keep],lines[keep:]
n=2
while len(lines)>=2:
    chunk=max(1,len(lines)//n); reduced=False
    for i in range(0,len(lines),chunk):
        cand=lines[:i]+lines[i+chunk:]
        if cand and bad(head+cand):
            lines=cand; n=max(n-1,2); reduced=True; break
    if not reduced:
        if chunk==1: break
        n=min(n*2,len(lines))
print('\n'.join(lines))
