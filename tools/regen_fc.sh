#!/bin/sh
# Maintainer helper (NOT used by any check): after editing fc/*.fo in /repo,
# regenerate /repo/fc/gen_*.go with a compiler built from the current gen files,
# exactly as fc/fc_all.sh does, then verify the second generation is identical.
set -eu
export GOFLAGS=-mod=mod GOPROXY=off GOSUMDB=off GOTOOLCHAIN=local
S=$(mktemp -d /tmp/verif-regen-XXXXXX)
trap 'rm -rf "$S"' EXIT
mkdir -p "$S/repo"
(cd /repo && git ls-files -co --exclude-standard -z | xargs -0 -I{} sh -c 'test -f "$1" && mkdir -p "$2/$(dirname "$1")" && cp -p "$1" "$2/$1"' sh {} "$S/repo")
FILES="ftype.fo ast.fo expr_to_type.fo expr_to_go.fo stmt_to_go.fo tokenizer.fo ast_util.fo ir_factory.fo parse_state.fo infer.fo parser.fo main.fo"
cd "$S/repo/fc"
go build -o "$S/fc1" .
"$S/fc1" ../pkg/pkg_all.foi $FILES >/dev/null
gofmt -w gen_*.go
go build -o "$S/fc2" .
mkdir "$S/g1" && cp gen_*.go "$S/g1/"
"$S/fc2" ../pkg/pkg_all.foi $FILES >/dev/null
gofmt -w gen_*.go
for f in gen_*.go; do cmp -s "$f" "$S/g1/$f" || { echo "NOT A FIXED POINT: $f"; exit 1; }; done
cp "$S"/g1/gen_*.go /repo/fc/
echo "regenerated; second generation identical"
git -C /repo status --short
