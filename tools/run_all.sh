#!/bin/sh
# tools/run_all.sh [quick|thorough] [ids...]: run the registered checks one after another, print one line each.
tier=${1:-quick}; shift 2>/dev/null || true
cd /verif
ids="$@"
[ -z "$ids" ] && ids=$(bin/vcheck list | awk '{print $1}' | sort)
rc=0
for id in $ids; do
  start=$(date +%s)
  out=$(./check.sh $id $tier 2>&1); code=$?
  end=$(date +%s)
  echo "$id exit=$code $((end-start))s $(echo "$out" | grep -E '^(OK|VIOLATION|KNOWN-FINDING|INCONCLUSIVE)' | head -3 | tr '\n' ' ' | cut -c1-220)"
  [ $code -ne 0 ] && rc=1
done
exit $rc
