#!/usr/bin/env python3
"""showcase.py <case.json> [line [context]] : print the msg head and the source (around a line)."""
import json,sys,re
d=json.load(open(sys.argv[1]))
msg=d['msg']
print(msg[:600])
c=d['case']
src=c.get('src') or ''
lines=src.split('\n')
m=re.search(r'prog\.fo: (\d+):(\d+)',msg)
ln=int(sys.argv[2]) if len(sys.argv)>2 else (int(m.group(1)) if m else None)
ctx=int(sys.argv[3]) if len(sys.argv)>3 else 6
if ln:
    for i in range(max(0,ln-1-ctx),min(len(lines),ln+ctx)):
        print(f"{i+1:4d}{'>' if i+1==ln else ' '} {lines[i]}")
else:
    print(src)
