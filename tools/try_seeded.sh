#!/bin/sh
# tools/try_seeded.sh <patch.diff> <id> [<id>...]: apply a seeded change to /repo, run the quick checks, undo it.
# (development aid; the change is never committed)
patch=$1; shift
cd /repo || exit 2
if [ -n "$(git status --short)" ]; then echo "/repo is not clean"; exit 2; fi
git apply "$patch" || { echo "patch does not apply"; exit 2; }
for id in "$@"; do
  out=$(cd /verif && ./check.sh $id quick 2>&1); code=$?
  echo "== $id exit=$code $(echo "$out" | grep -E '^(OK|VIOLATION|INCONCLUSIVE)' | head -2 | tr '\n' ' ' | cut -c1-200)"
  echo "$out" | grep -v "^transpile\|^Transpile\|^func:\|^KNOWN" | grep -A6 "^--- /verif/replay" | head -14 | cut -c1-220
done
git -C /repo checkout -- . ; git -C /repo clean -fdq -- . 2>/dev/null
git -C /repo status --short | head -3
