#!/bin/sh
# tools/try_seeded_wt.sh <patch.diff> <id> [<id>...]: like try_seeded.sh, but the change is applied to a private
# git worktree of /repo's HEAD (under /tmp) and the checks run against it through VERIF_REPO_DIR, so that /repo
# itself stays untouched (usable while a sweep is applying patches to /repo).
patch=$1; shift
W=/tmp/wt/try.$$
git -C /repo worktree add -q --detach "$W" HEAD || exit 2
trap 'git -C /repo worktree remove --force "$W" 2>/dev/null' EXIT
( cd "$W" && git apply "$patch" ) || { echo "patch does not apply"; exit 2; }
for id in "$@"; do
  out=$(cd /verif && VERIF_REPO_DIR="$W" ./check.sh $id quick 2>&1); code=$?
  echo "== $id exit=$code $(echo "$out" | grep -E '^(OK|VIOLATION|INCONCLUSIVE)' | head -2 | tr '\n' ' ' | cut -c1-200)"
done
